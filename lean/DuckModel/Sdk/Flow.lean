/-
  Model of the SDK's flow-control commands and of the nested evaluator:
    utils/instruction_query.rs (find_commands),
    sdk/std/flowcontrol/{ifelse,while_mod,forin,function,end}/mod.rs,
    utils/condition.rs (eval_condition dispatch), utils/eval.rs (parse / eval_with_instructions /
    eval_instructions), utils/scope.rs (push/pop),
  plus the handful of straight-line commands the generated programs use
  (set, equals, not, array, range) and three harness commands (emit, inc, lt) that the
  correspondence harness registers with the same behaviour in the real interpreter.

  `Context.state` is modelled as a typed record (`Sdk`) instead of nested string-keyed
  `StateValue` maps; the (de)serialisation glue of the Rust modules is abstracted.
  The keyword tables of the block scanners come from `Generated/FlowTables.lean`.
-/
import DuckModel.Runner
import DuckModel.Registry
import DuckModel.Sdk.Condition
import DuckModel.Generated.FlowTables

namespace Duck
open Duck.Generated

/-! ### find_commands -/

structure Positions where
  middle : List Nat
  stop : Nat
deriving DecidableEq, Repr

inductive FcErr
  | noNames | nestedNotAllowed | nestedEndNotFound | missingEnd | fuel
deriving DecidableEq, Repr

/-- the command written on line `line`, if it is a script instruction with a command -/
def commandAt (is : List Instruction) (line : Nat) : Option Str :=
  match is[line]? with
  | some i =>
    match i.ty with
    | .script si => si.command
    | _ => none
  | none => none

/-- the `for line in start_index..end_index` loop of `find_commands`; `n` = lines left,
    `rec start` = the recursive search one nesting level down -/
def fcLoop (t : FlowTables) (is : List Instruction) (rec : Nat → Except FcErr Positions) :
    (n line skipTo delta : Nat) → (middle : List Nat) → Except FcErr Positions
  | 0, _, _, _, _ => .error .missingEnd
  | n + 1, line, skipTo, delta, middle =>
    if line < skipTo then fcLoop t is rec n (line + 1) skipTo delta middle
    else
      match commandAt is line with
      | none => fcLoop t is rec n (line + 1) skipTo delta middle
      | some c =>
        if t.startBlocks.contains c then fcLoop t is rec n (line + 1) skipTo (delta + 1) middle
        else if t.middleNames.contains c then fcLoop t is rec n (line + 1) skipTo delta (middle ++ [line])
        else if t.endBlocks.contains c ∧ delta > 0 then fcLoop t is rec n (line + 1) skipTo (delta - 1) middle
        else if t.endNames.contains c then .ok ⟨middle, line⟩
        else if t.startNames.contains c then
          if t.allowRecursive then
            match rec (line + 1) with
            | .ok sub => fcLoop t is rec n (line + 1) (sub.stop + 1) delta middle
            | .error e => .error e
          else .error .nestedNotAllowed
        else fcLoop t is rec n (line + 1) skipTo delta middle

/-- `find_commands(instructions, …, Some(start), None | Some(len), …)`; fuel bounds the nesting -/
def findCommandsF (t : FlowTables) (is : List Instruction) : Nat → Nat → Except FcErr Positions
  | 0, _ => .error .fuel
  | fuel + 1, start =>
    if t.startNames.isEmpty ∨ t.endNames.isEmpty then .error .noNames
    else fcLoop t is (findCommandsF t is fuel) (is.length - start) start start 0 []

/-- nesting is never deeper than the number of lines -/
def findCommands (t : FlowTables) (is : List Instruction) (start : Nat) : Except FcErr Positions :=
  findCommandsF t is (is.length + 1) start

/-! ### typed SDK state -/

structure IfCall where
  current : Nat
  passed : Bool
  elseIdx : Nat
  start : Nat
  stop : Nat
  elses : List Nat
  ctx : Str
deriving DecidableEq, Repr

structure WhileCall where
  start : Nat
  stop : Nat
  ctx : Str
deriving DecidableEq, Repr

structure ForCall where
  iteration : Nat
  start : Nat
  stop : Nat
  ctx : Str
deriving DecidableEq, Repr

structure FnCall where
  callLine : Nat
  startLine : Nat
  endLine : Nat
  ctx : Str
  out : Option Str
  isScoped : Bool
deriving DecidableEq, Repr

structure FnInfo where
  start : Nat
  stop : Nat
  isScoped : Bool
deriving DecidableEq, Repr

structure Sdk where
  /-- call stacks: the HEAD of each list is the top of the stack -/
  ifStack : List IfCall := []
  whileStack : List WhileCall := []
  forStack : List ForCall := []
  fnStack : List FnCall := []
  /-- meta caches keyed by "<line context>::<line>" -/
  ifMeta : KV (Nat × List Nat) := []
  whileMeta : KV Nat := []
  forMeta : KV Nat := []
  /-- the per-line table of the generic `end` command -/
  endTable : KV Str := []
  fns : KV FnInfo := []
  scopeStack : List Vars := []
  /-- array handles -/
  handles : KV (List Str) := []
  nextHandle : Nat := 0
  lineCtx : Str := []
  /-- trace of the harness command `emit` -/
  emitted : List (List Str) := []

def lineKey (s : Sdk) (line : Nat) : Str := s.lineCtx ++ "::".toList ++ natToStr line

def crashOf (e : FcErr) : CmdResult := .crash (match e with
  | .noNames => "no names" | .nestedNotAllowed => "nested" | .nestedEndNotFound => "nested end"
  | .missingEnd => "missing end" | .fuel => "fuel").toList

/-! ### scope push / pop (utils/scope.rs, after repair F4) -/

def scopePush (vars : Vars) (s : Sdk) (copy : List Str) : Vars × Sdk :=
  let kept := copy.foldl (fun (acc : Vars × Vars) k =>
    match acc.1.get k with
    | some v => (acc.1.erase k, acc.2.set k v)
    | none => acc) (vars, [])
  (kept.2, { s with scopeStack := vars :: s.scopeStack })

def scopePop (vars : Vars) (s : Sdk) (copy : List Str) : Option (Vars × Sdk) :=
  match s.scopeStack.head? with
  | none => none
  | some old =>
    let kept := copy.foldl (fun (acc : Vars × Vars) k =>
      match acc.1.get k with
      | some v => (acc.1.erase k, acc.2.set k v)
      | none => acc) (vars, [])
    let restored := kept.2.foldl (fun m kv => m.set kv.1 kv.2) old
    some (restored, { s with scopeStack := s.scopeStack.tail })

/-! ### command identities -/

inductive Cmd
  | ifC | elseIf | elseC | endIf | whileC | endWhile | forIn | endFor | endC
  | function | endFunction | returnC | call (name : Str)
  | set | equals | notC | array | range | emit | inc | lt
deriving DecidableEq, Repr

def sdkName (s : String) : Str := s.toList

/-- name / alias resolution (aliases first, as `Commands::get`); user functions are
    registered under their own name when defined -/
def resolveCmd (s : Sdk) (name : Str) : Option Cmd :=
  if namesIfCommand.contains name then some .ifC
  else if namesElseIfCommand.contains name then some .elseIf
  else if namesElseCommand.contains name then some .elseC
  else if namesEndIfCommand.contains name then some .endIf
  else if namesWhileCommand.contains name then some .whileC
  else if namesEndWhileCommand.contains name then some .endWhile
  else if namesForInCommand.contains name then some .forIn
  else if namesEndForInCommand.contains name then some .endFor
  else if name = sdkName "end" then some .endC
  else if namesFunctionCommand.contains name then some .function
  else if namesEndFunctionCommand.contains name then some .endFunction
  else if namesReturnCommand.contains name then some .returnC
  else if name = sdkName "set" ∨ name = sdkName "std::var::Set" then some .set
  else if name = sdkName "equals" ∨ name = sdkName "eq" ∨ name = sdkName "std::string::Equals" then some .equals
  else if name = sdkName "not" ∨ name = sdkName "std::Not" then some .notC
  else if name = sdkName "array" ∨ name = sdkName "std::collections::Array" then some .array
  else if name = sdkName "range" ∨ name = sdkName "std::collections::Range" then some .range
  else if name = sdkName "emit" then some .emit
  else if name = sdkName "inc" then some .inc
  else if name = sdkName "lt" then some .lt
  else if (s.fns.get name).isSome then some (.call name)
  else none

/-! ### eval::parse — values → text line → parse again (the C09 path) -/

def strContains (s : Str) (c : Char) : Bool := s.any (· == c)

def serializeArg (a : Str) : Str :=
  if a.isEmpty then ['"', '"']
  else if a.head? = some '"' ∧ a.getLast? = some '"' then '\\' :: (a ++ ['\\'])
  else if strContains a ' ' then '"' :: (a ++ ['"'])
  else a

/-- `eval::parse`: the text that is parsed again -/
def serializeLine (args : List Str) : Str :=
  let buf := args.flatMap fun a => serializeArg a ++ [' ']
  let noBreaks := buf.filter fun c => c != '\r' && c != '\n'
  noBreaks.flatMap fun c => if c = '\\' then ['\\', '\\'] else [c]

def evalParse (args : List Str) : Option Instruction :=
  match parseText (serializeLine args) with
  | .ok (i :: _) => some i
  | _ => none

/-! ### the nested evaluator and the commands (mutually dependent through fuel) -/

/-- result of `eval_instructions`: (flow_result, flow_output) plus the new variables / state -/
abbrev EvalFn := List Instruction → Nat → Vars → Sdk → Option CmdResult × Option Str × Vars × Sdk

def decDigits? (s : Str) : Option Nat := parseDigits s

/-- pop-until-match of the if call stack (`pop_call_info_for_line`); head = top -/
def popIf (line : Nat) (ctx : Str) : List IfCall → Option (IfCall × List IfCall)
  | [] => none
  | top :: rest =>
    if top.current = line ∧ top.ctx = ctx then some (top, rest) else popIf line ctx rest

def popWhile (line : Nat) (ctx : Str) : List WhileCall → Option (WhileCall × List WhileCall)
  | [] => none
  | top :: rest =>
    if top.stop = line ∧ top.ctx = ctx then some (top, rest) else popWhile line ctx rest

/-- `pop_call_info_for_line(line, state, recursive)` of the for/in stack: the entry found (if any)
    and the stack that is left (non-recursive: only the top is inspected and it is put back when
    it does not match; recursive: everything above the match is discarded) -/
def popFor (line : Nat) (ctx : Str) (recursive : Bool) : List ForCall → Option ForCall × List ForCall
  | [] => (none, [])
  | top :: rest =>
    if (top.start = line ∨ top.stop = line) ∧ top.ctx = ctx then (some top, rest)
    else if recursive then popFor line ctx recursive rest
    else (none, top :: rest)

/-- `eval_condition` -/
def evalCondition (nested : EvalFn) (is : List Instruction) (args : List Str) (vars : Vars) (s : Sdk) :
    Except Unit Bool × Vars × Sdk :=
  match args with
  | [] => (.ok (isTrue none), vars, s)
  | first :: _ =>
    if (resolveCmd s first).isSome then
      -- eval_with_instructions
      match evalParse args with
      | none => (.error (), vars, s)
      | some instr =>
        let all := is ++ [instr]
        match nested all (all.length - 1) vars s with
        | (some (.continue v), _, vars', s') => (.ok (isTrue v), vars', s')
        | (some (.crash _), _, vars', s') => (.error (), vars', s')
        | (some (.error _), _, vars', s') => (.error (), vars', s')
        | (some _, _, vars', s') => (.error (), vars', s')
        | (none, out, vars', s') => (.ok (isTrue out), vars', s')
    else
      match evalSlice args with
      | .ok b => (.ok b, vars, s)
      | .error _ => (.error (), vars, s)

def errR : CmdResult := .error []

/-- get-or-create of the cached block positions + registration of the specific end command -/
def ifMetaFor (is : List Instruction) (s : Sdk) (line : Nat) : Except CmdResult ((Nat × List Nat) × Sdk) :=
  let key := lineKey s line
  match s.ifMeta.get key with
  | some m => .ok (m, { s with endTable := s.endTable.put (lineKey s m.1) fullNameEndIf })
  | none =>
    match findCommands ifTables is (line + 1) with
    | .ok p => .ok ((p.stop, p.middle),
        { s with ifMeta := s.ifMeta.put key (p.stop, p.middle), endTable := s.endTable.put (lineKey s p.stop) fullNameEndIf })
    | .error e => .error (crashOf e)

def whileMetaFor (is : List Instruction) (s : Sdk) (line : Nat) : Except CmdResult (Nat × Sdk) :=
  let key := lineKey s line
  match s.whileMeta.get key with
  | some m => .ok (m, { s with endTable := s.endTable.put (lineKey s m) fullNameEndWhile })
  | none =>
    match findCommands whileTables is (line + 1) with
    | .ok p => .ok (p.stop,
        { s with whileMeta := s.whileMeta.put key p.stop, endTable := s.endTable.put (lineKey s p.stop) fullNameEndWhile })
    | .error e => .error (crashOf e)

def forMetaFor (is : List Instruction) (s : Sdk) (line : Nat) : Except CmdResult (Nat × Sdk) :=
  let key := lineKey s line
  match s.forMeta.get key with
  | some m => .ok (m, { s with endTable := s.endTable.put (lineKey s m) fullNameEndForIn })
  | none =>
    match findCommands forTables is (line + 1) with
    | .ok p => .ok (p.stop,
        { s with forMeta := s.forMeta.put key p.stop, endTable := s.endTable.put (lineKey s p.stop) fullNameEndForIn })
    | .error e => .error (crashOf e)

def handleName (k : Nat) : Str := "handle:".toList ++ natToStr k

def annotationScope (a : Str) : Option Bool :=
  -- annotation::parse: "<a,b>" → some (contains "scope"); anything else → none
  match a with
  | '<' :: rest =>
    match rest.reverse with
    | '>' :: midRev =>
      let inner := midRev.reverse
      some (inner = "scope".toList)
    | _ => none
  | _ => none

/-- one SDK command; `nested` = `eval_instructions` one fuel level down; `endRec` = the same
    command dispatcher one fuel level down (for the generic `end`) -/
def runCmd (nested : EvalFn) (endRec : Cmd → List Str → Option Str → Nat → Vars → Sdk → CmdResult × Vars × Sdk)
    (is : List Instruction) (c : Cmd) (args : List Str) (out : Option Str) (line : Nat) (vars : Vars) (s : Sdk) :
    CmdResult × Vars × Sdk :=
  match c with
  | .ifC =>
    if args.isEmpty then (errR, vars, s)
    else
      match ifMetaFor is s line with
      | .error r => (r, vars, s)
      | .ok ((stop, elses), s) =>
        match evalCondition nested is args vars s with
        | (.error _, vars, s) => (errR, vars, s)
        | (.ok passed, vars, s) =>
          if passed then
            let next := match elses with | [] => stop | e :: _ => e
            (.continue none, vars, { s with ifStack := { current := next, passed := true, elseIdx := 0, start := line, stop := stop, elses := elses, ctx := s.lineCtx } :: s.ifStack })
          else
            match elses with
            | [] => (.goTo none (.line (stop + 1)), vars, s)
            | e :: _ =>
              (.goTo none (.line e), vars, { s with ifStack := { current := e, passed := false, elseIdx := 0, start := line, stop := stop, elses := elses, ctx := s.lineCtx } :: s.ifStack })
  | .elseIf =>
    if args.isEmpty then (errR, vars, s)
    else
      match popIf line s.lineCtx s.ifStack with
      | none => (errR, vars, { s with ifStack := [] })
      | some (ci, rest) =>
        let s := { s with ifStack := rest }
        if ci.passed then (.goTo none (.line (ci.stop + 1)), vars, s)
        else
          match evalCondition nested is args vars s with
          | (.error _, vars, s) => (errR, vars, s)
          | (.ok passed, vars, s) =>
            if passed then
              let next := if ci.elseIdx + 1 < ci.elses.length then ci.elses[ci.elseIdx + 1]?.getD 0 else ci.elses[0]?.getD 0
              (.continue none, vars, { s with ifStack := { ci with current := next, passed := true, ctx := s.lineCtx } :: s.ifStack })
            else if ci.elseIdx + 1 < ci.elses.length then
              let next := ci.elses[ci.elseIdx + 1]?.getD 0
              (.goTo none (.line next), vars, { s with ifStack := { ci with current := next, passed := false, elseIdx := ci.elseIdx + 1, ctx := s.lineCtx } :: s.ifStack })
            else (.goTo none (.line (ci.stop + 1)), vars, s)
  | .elseC =>
    match popIf line s.lineCtx s.ifStack with
    | none => (errR, vars, { s with ifStack := [] })
    | some (ci, rest) =>
      let s := { s with ifStack := rest }
      if ci.passed then (.goTo none (.line (ci.stop + 1)), vars, s) else (.continue none, vars, s)
  | .endIf => (.continue none, vars, s)
  | .whileC =>
    if args.isEmpty then (errR, vars, s)
    else
      match whileMetaFor is s line with
      | .error r => (r, vars, s)
      | .ok (stop, s) =>
        match evalCondition nested is args vars s with
        | (.error _, vars, s) => (errR, vars, s)
        | (.ok passed, vars, s) =>
          if passed then
            (.continue none, vars, { s with whileStack := { start := line, stop := stop, ctx := s.lineCtx } :: s.whileStack })
          else (.goTo none (.line (stop + 1)), vars, s)
  | .endWhile =>
    match popWhile line s.lineCtx s.whileStack with
    | none => (errR, vars, { s with whileStack := [] })
    | some (ci, rest) => (.goTo none (.line ci.start), vars, { s with whileStack := ci :: rest })
  | .forIn =>
    match args with
    | [v, kw, handle] =>
      if kw ≠ "in".toList then (errR, vars, s)
      else
        let (found, stack') := popFor line s.lineCtx false s.forStack
        let start : Except CmdResult (ForCall × Sdk) :=
          match found with
          | some ci => .ok (ci, { s with forStack := stack' })
          | none =>
            match forMetaFor is { s with forStack := stack' } line with
            | .error r => .error r
            | .ok (stop, s) => .ok ({ iteration := 0, start := line, stop := stop, ctx := s.lineCtx }, s)
        match start with
        | .error r => (r, vars, s)
        | .ok (ci, s) =>
          match (s.handles.get handle).bind (fun l => l[ci.iteration]?) with
          | some value =>
            (.continue none, vars.set v value,
              { s with forStack := { ci with iteration := ci.iteration + 1, ctx := s.lineCtx } :: s.forStack })
          | none => (.goTo none (.line (ci.stop + 1)), vars, s)
    | _ => (errR, vars, s)
  | .endFor =>
    match popFor line s.lineCtx true s.forStack with
    | (none, _) => (errR, vars, { s with forStack := [] })
    | (some ci, rest) => (.goTo none (.line ci.start), vars, { s with forStack := ci :: rest })
  | .endC =>
    match s.endTable.get (lineKey s line) with
    | some name =>
      match resolveCmd s name with
      | some c' => endRec c' [] none line vars s
      | none => (.crash [], vars, s)
    | none => (.continue none, vars, s)
  | .function =>
    match args with
    | [] => (errR, vars, s)
    | a0 :: rest =>
      let (name, isSc) :=
        match rest with
        | [] => (a0, false)
        | a1 :: _ =>
          match annotationScope a0 with
          | some sc => (a1, sc)
          | none => (a0, false)
      match s.fns.get name with
      | some fi => if fi.start ≠ line then (errR, vars, s) else (.goTo none (.line (fi.stop + 1)), vars, s)
      | none =>
        match findCommands fnTables is (line + 1) with
        | .error e => (crashOf e, vars, s)
        | .ok p =>
          -- a function name that is already a command cannot be registered
          if (resolveCmd s name).isSome then
            (errR, vars, { s with endTable := s.endTable.put (lineKey s p.stop) fullNameEndFunction,
                                  fns := s.fns.put name { start := line, stop := p.stop, isScoped := isSc } })
          else
            (.goTo none (.line (p.stop + 1)), vars,
              { s with endTable := s.endTable.put (lineKey s p.stop) fullNameEndFunction,
                       fns := s.fns.put name { start := line, stop := p.stop, isScoped := isSc } })
  | .call name =>
    match s.fns.get name with
    | none => (errR, vars, s)
    | some fi =>
      let (vars, s) := if fi.isScoped then scopePush vars s [] else (vars, s)
      let vars := (args.zipIdx).foldl (fun m (a, i) => m.set (natToStr (i + 1)) a) vars
      (.goTo none (.line (fi.start + 1)), vars,
        { s with fnStack := { callLine := line, startLine := fi.start, endLine := fi.stop,
                                            ctx := s.lineCtx, out := out, isScoped := fi.isScoped } :: s.fnStack })
  | .endFunction =>
    match s.fnStack.head? with
    | none => (.continue none, vars, s)
    | some ci =>
      if ci.endLine = line ∧ ci.ctx = s.lineCtx then
        let s := { s with fnStack := s.fnStack.tail }
        if ci.isScoped then
          match scopePop vars s [] with
          | none => (errR, vars, s)
          | some (vars, s) => (.goTo none (.line (ci.callLine + 1)), vars, s)
        else (.goTo none (.line (ci.callLine + 1)), vars, s)
      else (.continue none, vars, s)
  | .returnC =>
    match s.fnStack.head? with
    | none => (.continue none, vars, s)
    | some ci =>
      if ci.startLine < line ∧ line < ci.endLine ∧ ci.ctx = s.lineCtx then
        let s := { s with fnStack := s.fnStack.tail }
        let vars :=
          match ci.out with
          | some name => (match args with | [] => vars.erase name | a :: _ => vars.set name a)
          | none => vars
        let output := args.head?
        if ci.isScoped then
          match scopePop vars s (match ci.out with | some n => [n] | none => []) with
          | none => (errR, vars, s)
          | some (vars, s) => (.goTo output (.line (ci.callLine + 1)), vars, s)
        else (.goTo output (.line (ci.callLine + 1)), vars, s)
      else (.continue none, vars, s)
  | .set =>
    match args with
    | [] => (.continue none, vars, s)
    | [a] => (.continue (some a), vars, s)
    | _ => (.crash "unmodelled set form".toList, vars, s)
  | .equals =>
    match args with
    | a :: b :: _ => (.continue (some (if a = b then "true".toList else "false".toList)), vars, s)
    | _ => (errR, vars, s)
  | .notC =>
    if args.isEmpty then (errR, vars, s)
    else
      match evalCondition nested is args vars s with
      | (.error _, vars, s) => (errR, vars, s)
      | (.ok passed, vars, s) => (.continue (some (if passed then "false".toList else "true".toList)), vars, s)
  | .array =>
    let h := handleName s.nextHandle
    (.continue (some h), vars, { s with handles := s.handles.put h args, nextHandle := s.nextHandle + 1 })
  | .range =>
    match args with
    | [a, b] =>
      match decDigits? a, decDigits? b with
      | some x, some y =>
        if x > y then (errR, vars, s)
        else
          let items := (List.range (y - x)).map fun i => natToStr (x + i)
          let h := handleName s.nextHandle
          (.continue (some h), vars, { s with handles := s.handles.put h items, nextHandle := s.nextHandle + 1 })
      | _, _ => (.crash "unmodelled range form".toList, vars, s)
    | _ => (errR, vars, s)
  | .emit => (.continue none, vars, { s with emitted := s.emitted ++ [args] })
  | .inc =>
    match args with
    | [a] =>
      match decDigits? a with
      | some n => (.continue (some (natToStr (n + 1))), vars, s)
      | none => (.continue (some "1".toList), vars, s)
    | _ => (errR, vars, s)
  | .lt =>
    match args with
    | [a, b] =>
      match decDigits? a, decDigits? b with
      | some x, some y => (.continue (some (if x < y then "true".toList else "false".toList)), vars, s)
      | _, _ => (.continue (some "false".toList), vars, s)
    | _ => (errR, vars, s)

/-- the command dispatcher with fuel (for the generic `end`) -/
def runCmdF (nested : EvalFn) (is : List Instruction) :
    Nat → Cmd → List Str → Option Str → Nat → Vars → Sdk → CmdResult × Vars × Sdk
  | 0, _, _, _, _, vars, s => (.crash "fuel".toList, vars, s)
  | fuel + 1, c, args, out, line, vars, s =>
    runCmd nested (runCmdF nested is fuel) is c args out line vars s

/-- the SDK as a command semantics for the runner -/
def sdkSem (nested : EvalFn) (is : List Instruction) : CmdSem Sdk :=
  fun name args out line vars s =>
    match resolveCmd s name with
    | none => none
    | some c => some (runCmdF nested is 3 c args out line vars s)

/-- `eval_instructions` (the mini-runner used for command conditions) -/
def evalInstrsF : Nat → EvalFn
  | 0 => fun _ _ vars s => (some (.crash "fuel".toList), none, vars, s)
  | fuel + 1 => fun is line vars s => go fuel (evalInstrsF fuel) (fuel + 1) is line vars s none
where
  go (fuel : Nat) (nested : EvalFn) : Nat → List Instruction → Nat → Vars → Sdk → Option Str →
      Option CmdResult × Option Str × Vars × Sdk
    | 0, _, _, vars, s, _ => (some (.crash "fuel".toList), none, vars, s)
    | n + 1, is, line, vars, s, flowOut =>
      match is[line]? with
      | none => (none, flowOut, vars, s)
      | some instr =>
        match instr.ty with
        | .script si =>
          let (r, _, vars, s) := runInstruction (sdkSem nested is) vars s instr line
          match r with
          | .exit v => (some (.exit v), flowOut, vars, s)
          | .error e => (some (.error e), flowOut, vars, s)
          | .crash e => (some (.crash e), flowOut, vars, s)
          | .goTo v g =>
            match g with
            | .label _ => (some (.error []), v, vars, s)
            | .line l => go fuel nested n is l vars s v
          | .continue v =>
            let vars :=
              match si.output with
              | some o => (match v with | some x => vars.set o x | none => vars.erase o)
              | none => vars
            go fuel nested n is (line + 1) vars s v
        | _ => go fuel nested n is (line + 1) vars s flowOut

/-- the whole interpreter: `run_script` with the SDK commands -/
def interpRun (fuel : Nat) (is : List Instruction) (vars : Vars) (s : Sdk) : RunState Sdk × RunEnd :=
  run (sdkSem (evalInstrsF fuel) is) (fun _ _ => false) fuel is vars s

end Duck
