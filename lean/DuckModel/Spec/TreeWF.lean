/-
  Well-formedness of structured program trees (the domain of C04 / C05 theorems):
  every keyword is a spelling of the right command (any alias or the full name; blocks are
  closed by the generic `end` or by the block's own end command) and straight-line commands
  are not flow-control words.
-/
import DuckModel.Spec.Tree

namespace Duck.Spec
open Duck Duck.Generated

def endWord : Str := "end".toList

/-- every word the block scanners react to -/
def flowWords : List Str :=
  namesIfCommand ++ namesElseIfCommand ++ namesElseCommand ++ namesEndIfCommand ++
  namesWhileCommand ++ namesEndWhileCommand ++ namesForInCommand ++ namesEndForInCommand ++
  namesFunctionCommand ++ namesEndFunctionCommand ++ [endWord]

def isIfKw (k : Str) : Bool := namesIfCommand.contains k
def isElifKw (k : Str) : Bool := namesElseIfCommand.contains k
def isElseKw (k : Str) : Bool := namesElseCommand.contains k
def isEndIfKw (k : Str) : Bool := namesEndIfCommand.contains k || k == endWord
def isWhileKw (k : Str) : Bool := namesWhileCommand.contains k
def isEndWhileKw (k : Str) : Bool := namesEndWhileCommand.contains k || k == endWord
def isForKw (k : Str) : Bool := namesForInCommand.contains k
def isEndForKw (k : Str) : Bool := namesEndForInCommand.contains k || k == endWord
def isFnKw (k : Str) : Bool := namesFunctionCommand.contains k
def isEndFnKw (k : Str) : Bool := namesEndFunctionCommand.contains k || k == endWord
def isPlainCmd (c : Str) : Bool := !flowWords.contains c

mutual
  /-- keyword spellings are right and straight-line commands are plain (Bool, decidable) -/
  def Stmt.wf : Stmt → Bool
    | .line l => isPlainCmd l.cmd
    | .ifChain kwIf _ body elifs kwElse elseBody kwEnd =>
      isIfKw kwIf && body.wf && elifs.wf &&
        (match kwElse with | some k => isElseKw k && elseBody.wf | none => true) && isEndIfKw kwEnd
    | .whileLoop kw _ body kwEnd => isWhileKw kw && body.wf && isEndWhileKw kwEnd
    | .forIn kw _ _ body kwEnd => isForKw kw && body.wf && isEndForKw kwEnd
    | .fnDef kw _ _ body kwEnd => isFnKw kw && body.wf && isEndFnKw kwEnd
    | .ret kw _ => namesReturnCommand.contains kw
  def Block.wf : Block → Bool
    | .nil => true
    | .cons s rest => s.wf && rest.wf
  def Elifs.wf : Elifs → Bool
    | .nil => true
    | .cons kw _ body rest => isElifKw kw && body.wf && rest.wf
end

mutual
  /-- no function definitions inside (C04 programs; also: the body of a function) -/
  def Stmt.noFn : Stmt → Bool
    | .line _ => true
    | .ifChain _ _ body elifs _ elseBody _ => body.noFn && elifs.noFn && elseBody.noFn
    | .whileLoop _ _ body _ => body.noFn
    | .forIn _ _ _ body _ => body.noFn
    | .fnDef _ _ _ _ _ => false
    | .ret _ _ => true
  def Block.noFn : Block → Bool
    | .nil => true
    | .cons s rest => s.noFn && rest.noFn
  def Elifs.noFn : Elifs → Bool
    | .nil => true
    | .cons _ _ body rest => body.noFn && rest.noFn
end

/-- the instructions of a block as they sit in a program, starting at 0-based index `n`
    (1-based source line `n + 1`) -/
def instrsFrom (n : Nat) (l : List ScriptInstr) : List Instruction := program.go l (n + 1)

/-- the line offsets, relative to the statement's first line, of the else-lines of an if chain -/
def elseOffsets (body : Block) : Elifs → Option Str → List Nat
  | elifs, kwElse => go (1 + body.flatten.length) elifs kwElse
where
  go (off : Nat) : Elifs → Option Str → List Nat
    | .nil, some _ => [off]
    | .nil, none => []
    | .cons _ _ b rest, kwElse => off :: go (off + 1 + b.flatten.length) rest kwElse

end Duck.Spec
