/-
  The "simple" fragment of structured programs used by the first simulation theorem:
  conditions start with a literal word that is not a command (so they are decided by the
  boolean-expression evaluator, never by running a command) and straight-line commands are
  the ones that neither re-enter the interpreter nor fail the run.
-/
import DuckModel.Spec.TreeWF

namespace Duck.Spec
open Duck

/-- a written word without expansion syntax -/
def isLiteral (w : Str) : Bool := w.all fun c => c != '$' && c != '%' && c != '\\'

/-- a condition decided by `eval_condition_for_slice`: non-empty, first word a literal that
    names no command -/
def condSimple (cond : List Str) : Bool :=
  match cond with
  | [] => false
  | h :: _ => isLiteral h && !h.isEmpty && (resolveCmd {} h).isNone

/-- straight-line commands of the fragment -/
def isSimpleCmd (c : Str) : Bool :=
  match resolveCmd {} c with
  | some .set => true
  | some .equals => true
  | some .array => true
  | some .range => true
  | some .emit => true
  | some .inc => true
  | some .lt => true
  | _ => false

mutual
  def Stmt.simple : Stmt → Bool
    | .line l => isSimpleCmd l.cmd && isLiteral l.cmd
    | .ifChain _ cond body elifs _ elseBody _ => condSimple cond && body.simple && elifs.simple && elseBody.simple
    | .whileLoop _ cond body _ => condSimple cond && body.simple
    | .forIn _ v handle body _ => isLiteral v && !v.isEmpty && body.simple && !handle.isEmpty
    | .fnDef _ _ _ _ _ => false
    | .ret _ _ => false
  def Block.simple : Block → Bool
    | .nil => true
    | .cons s rest => s.simple && rest.simple
  def Elifs.simple : Elifs → Bool
    | .nil => true
    | .cons _ cond body rest => condSimple cond && body.simple && rest.simple
end

end Duck.Spec
