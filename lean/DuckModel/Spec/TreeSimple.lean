/-
  The "simple" fragment of structured programs used by the first simulation theorem:
  conditions start with a literal word that is not a command (so they are decided by the
  boolean-expression evaluator, never by running a command) and straight-line commands are
  the ones that neither re-enter the interpreter nor fail the run.
-/
import DuckModel.Spec.TreeWF

namespace Duck.Spec
open Duck

/-- a written word without expansion syntax -/
def isLiteral (w : Str) : Bool := w.all fun c => c != '$' && c != '%' && c != '\\'

/-- a condition decided by `eval_condition_for_slice`: non-empty, first word a literal that
    names no command -/
def condSimple (cond : List Str) : Bool :=
  match cond with
  | [] => false
  | h :: _ => isLiteral h && !h.isEmpty && (resolveCmd {} h).isNone

/-- straight-line commands of the fragment -/
def isSimpleCmd (c : Str) : Bool :=
  match resolveCmd {} c with
  | some .set => true
  | some .equals => true
  | some .array => true
  | some .range => true
  | some .emit => true
  | some .inc => true
  | some .lt => true
  | _ => false

/-- the variable named by a word of the exact form `${name}` (name free of expansion syntax,
    `}` and key-ending characters) -/
def handleVar? (w : Str) : Option Str :=
  match w with
  | '$' :: '{' :: rest =>
    match rest.reverse with
    | '}' :: nameRev =>
      let name := nameRev.reverse
      if !name.isEmpty && name.all (fun c => c != '$' && c != '%' && c != '\\' && c != '}' && c != '{' &&
          c != ' ' && c != '=' && c != '\t' && c != '\r' && c != '\n') then some name else none
    | _ => none
  | _ => none

mutual
  /-- does the statement (possibly) assign variable `v`: as an output variable or as a loop variable -/
  def Stmt.assigns (v : Str) : Stmt → Bool
    | .line l => l.out == some v
    | .ifChain _ _ body elifs _ elseBody _ => body.assigns v || elifs.assigns v || elseBody.assigns v
    | .whileLoop _ _ body _ => body.assigns v
    | .forIn _ x _ body _ => x == v || body.assigns v
    | .fnDef _ _ _ body _ => body.assigns v
    | .ret _ _ => false
  def Block.assigns (v : Str) : Block → Bool
    | .nil => false
    | .cons s rest => s.assigns v || rest.assigns v
  def Elifs.assigns (v : Str) : Elifs → Bool
    | .nil => false
    | .cons _ _ body rest => body.assigns v || rest.assigns v
end

mutual
  def Stmt.simple : Stmt → Bool
    | .line l => isSimpleCmd l.cmd && isLiteral l.cmd
    | .ifChain _ cond body elifs _ elseBody _ => condSimple cond && body.simple && elifs.simple && elseBody.simple
    | .whileLoop _ cond body _ => condSimple cond && body.simple
    -- a for-in loop iterates over the collection held by a variable `${h}` that the body
    -- does not reassign (the real interpreter re-reads the handle word on every iteration)
    | .forIn _ x handle body _ =>
      isLiteral x && !x.isEmpty && body.simple &&
        (match handleVar? handle with
         | some h => x != h && !body.assigns h
         | none => false)
    | .fnDef _ _ _ _ _ => false
    | .ret _ _ => false
  def Block.simple : Block → Bool
    | .nil => true
    | .cons s rest => s.simple && rest.simple
  def Elifs.simple : Elifs → Bool
    | .nil => true
    | .cons _ cond body rest => condSimple cond && body.simple && rest.simple
end

end Duck.Spec
