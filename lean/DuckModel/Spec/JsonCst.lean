/-
  C17 specification side of the JSON text layer: JSON texts as CONCRETE SYNTAX TREES
  (RFC 8259 grammar with everything a writer is free to choose made explicit):

  * `ws` (any run of space, `\t`, `\n`, `\r`) at every place the grammar allows it: after `[`
    `{` `,` `:`, before `]` `}` `,` `:`;
  * for every character of a string its spelling: raw, a two-character escape (`\"` `\\` `\/`
    `\b` `\f` `\n` `\r` `\t`), `\uXXXX` with hexadecimal digits of either case, or a surrogate
    pair `\uD8xx\uDCxx`;
  * the members of an object in any order, keys possibly repeated.

  `render` is the text of a tree, `value` the document it denotes: arrays in order, an object
  as the map from its keys to the value of the LAST member with that key, keys in increasing
  order (`JsonText.insertF`, characterised as a map insertion by `lookupF_insertF…` /
  `sortedF_insertF` in `Lemmas/JsonCstLemmas.lean`).  `WF` says the layout strings are white
  space, every spelling denotes its character, numbers are integers `serde_json` keeps exact
  (the only restriction with respect to RFC 8259: no fractions / exponents / `-0` / big integers).

  The lexical tables (`isWs`, `hex4`, `unescape`, `IntText`) are shared with the model
  `Sdk/JsonText.lean`; they are compared with the crate by the harness.  What the theorems
  about this file add is that the reader is insensitive to every free choice of the grammar.
-/
import DuckModel.Sdk.JsonText

namespace Duck.JsonCst
open Duck Duck.Enc Duck.JsonText

/-- the way one character of a string token is written -/
inductive Spell
  /-- the character itself -/
  | raw
  /-- `\e` -/
  | short (e : Char)
  /-- `\uXXXX` -/
  | u4 (a b c d : Char)
  /-- `\uXXXX\uXXXX`, a surrogate pair -/
  | pair (a b c d a' b' c' d' : Char)

def spellText (ch : Char) : Spell → List Char
  | .raw => [ch]
  | .short e => ['\\', e]
  | .u4 a b c d => ['\\', 'u', a, b, c, d]
  | .pair a b c d a' b' c' d' => ['\\', 'u', a, b, c, d, '\\', 'u', a', b', c', d']

/-- the spelling denotes the character (RFC 8259 section 7) -/
def spellOK (ch : Char) : Spell → Bool
  | .raw => decide (ch ≠ '"') && decide (ch ≠ '\\') && decide (32 ≤ ch.toNat)
  | .short e => decide (e ≠ 'u') && decide (unescape e = some ch)
  | .u4 a b c d =>
    match hex4 a b c d with
    | some n => (decide (n < 0xD800) || decide (0xE000 ≤ n)) && decide (ch = Char.ofNat n)
    | none => false
  | .pair a b c d a' b' c' d' =>
    match hex4 a b c d, hex4 a' b' c' d' with
    | some n, some m =>
      decide (0xD800 ≤ n) && decide (n ≤ 0xDBFF) && decide (0xDC00 ≤ m) && decide (m ≤ 0xDFFF) &&
        decide (ch = Char.ofNat ((n - 0xD800) * 1024 + (m - 0xDC00) + 0x10000))
    | _, _ => false

/-- a string token: its characters, each with a spelling -/
abbrev StrTok := List (Char × Spell)

def strValue (s : StrTok) : Str := s.map (·.1)

def strBody : StrTok → List Char
  | [] => []
  | p :: r => spellText p.1 p.2 ++ strBody r

def strText (s : StrTok) : List Char := '"' :: (strBody s ++ ['"'])

def strOK (s : StrTok) : Bool := s.all fun p => spellOK p.1 p.2

def allWs (w : List Char) : Bool := w.all isWs

mutual
  inductive Cst
    | null
    | bool (b : Bool)
    | num (t : Str)
    | str (s : StrTok)
    /-- `[ w ]` -/
    | arr0 (w : List Char)
    /-- `[ w item items` -/
    | arr (w : List Char) (h : Cst) (t : CstItems)
    /-- `{ w }` -/
    | obj0 (w : List Char)
    /-- `{ members` -/
    | obj (m : CstFields)
  /-- what follows an item of an array -/
  inductive CstItems
    /-- `w ]` -/
    | nil (w : List Char)
    /-- `w1 , w2 item items` -/
    | cons (w1 w2 : List Char) (h : Cst) (t : CstItems)
  /-- the members of an object from one member on -/
  inductive CstFields
    /-- `w0 "key" w1 : w2 value w3 }` -/
    | one (w0 : List Char) (k : StrTok) (w1 w2 : List Char) (v : Cst) (w3 : List Char)
    /-- `w0 "key" w1 : w2 value w3 , members` -/
    | cons (w0 : List Char) (k : StrTok) (w1 w2 : List Char) (v : Cst) (w3 : List Char)
        (t : CstFields)
end

mutual
  /-- the text of a tree -/
  def render : Cst → List Char
    | .null => ['n', 'u', 'l', 'l']
    | .bool b => boolText b
    | .num t => t
    | .str s => strText s
    | .arr0 w => '[' :: (w ++ [']'])
    | .arr w h t => '[' :: (w ++ (render h ++ renderItems t))
    | .obj0 w => '{' :: (w ++ ['}'])
    | .obj m => '{' :: renderFields m
  def renderItems : CstItems → List Char
    | .nil w => w ++ [']']
    | .cons w1 w2 h t => w1 ++ ',' :: (w2 ++ (render h ++ renderItems t))
  def renderFields : CstFields → List Char
    | .one w0 k w1 w2 v w3 => w0 ++ (strText k ++ (w1 ++ ':' :: (w2 ++ (render v ++ (w3 ++ ['}'])))))
    | .cons w0 k w1 w2 v w3 t =>
      w0 ++ (strText k ++ (w1 ++ ':' :: (w2 ++ (render v ++ (w3 ++ ',' :: renderFields t)))))
end

mutual
  /-- the document a tree denotes -/
  def value : Cst → Json
    | .null => .null
    | .bool b => .bool b
    | .num t => .num t
    | .str s => .str (strValue s)
    | .arr0 _ => .arr .nil
    | .arr _ h t => .arr (.cons (value h) (valueItems t))
    | .obj0 _ => .obj .nil
    | .obj m => .obj (valueFields .nil m)
  def valueItems : CstItems → JList
    | .nil _ => .nil
    | .cons _ _ h t => .cons (value h) (valueItems t)
  /-- the members put one after the other into the map read so far -/
  def valueFields (acc : JFields) : CstFields → JFields
    | .one _ k _ _ v _ => insertF (strValue k) (value v) acc
    | .cons _ k _ _ v _ t => valueFields (insertF (strValue k) (value v) acc) t
end

mutual
  /-- layout strings are white space, spellings denote their characters, numbers are exact -/
  def WF : Cst → Bool
    | .null => true
    | .bool _ => true
    | .num t => IntText t
    | .str s => strOK s
    | .arr0 w => allWs w
    | .arr w h t => allWs w && WF h && WFItems t
    | .obj0 w => allWs w
    | .obj m => WFFields m
  def WFItems : CstItems → Bool
    | .nil w => allWs w
    | .cons w1 w2 h t => allWs w1 && allWs w2 && WF h && WFItems t
  def WFFields : CstFields → Bool
    | .one w0 k w1 w2 v w3 => allWs w0 && strOK k && allWs w1 && allWs w2 && WF v && allWs w3
    | .cons w0 k w1 w2 v w3 t =>
      allWs w0 && strOK k && allWs w1 && allWs w2 && WF v && allWs w3 && WFFields t
end

mutual
  /-- nesting of containers -/
  def cdepth : Cst → Nat
    | .null => 0
    | .bool _ => 0
    | .num _ => 0
    | .str _ => 0
    | .arr0 _ => 1
    | .arr _ h t => 1 + max (cdepth h) (cdepthItems t)
    | .obj0 _ => 1
    | .obj m => 1 + cdepthFields m
  def cdepthItems : CstItems → Nat
    | .nil _ => 0
    | .cons _ _ h t => max (cdepth h) (cdepthItems t)
  def cdepthFields : CstFields → Nat
    | .one _ _ _ _ v _ => cdepth v
    | .cons _ _ _ _ v _ t => max (cdepth v) (cdepthFields t)
end

/-- the value of the member with key `k` -/
def lookupF (k : Str) : JFields → Option Json
  | .nil => none
  | .cons k' v t => if k' = k then some v else lookupF k t

end Duck.JsonCst
