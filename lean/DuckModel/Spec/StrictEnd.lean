/-
  C05, the clause "a call that ends without a value (bare `return` or reaching the end) leaves
  that variable undefined", read literally.

  The tree interpreter (Spec/Tree.lean) follows the implementation at this point: reaching the
  function's end touches nothing, a bare `return` ERASES the call's output variable.  The two ways
  of ending without a value therefore differ when the body of a plain (not `<scope>`) function
  assigned a variable that has the name of the call's output variable.  `strictEnds` is the
  program in which the two ways coincide: every plain function gets a bare `return` as its last
  statement.  Where `runTree` of the program and of its `strictEnds` differ, the implementation
  (which agrees with the former) deviates from the literal clause — the recorded finding
  C05/end-keeps-body-assigned-output.
-/
import DuckModel.Spec.Tree

namespace Duck.Spec

def Block.append : Block → Block → Block
  | .nil, b => b
  | .cons s r, b => .cons s (Block.append r b)

/-- a bare `return` appended to the body of every plain top-level function definition -/
def Block.strictEnds : Block → Block
  | .nil => .nil
  | .cons (.fnDef kw false name body kwEnd) rest =>
    .cons (.fnDef kw false name (Block.append body (.cons (.ret "return".toList none) .nil)) kwEnd) rest.strictEnds
  | .cons s rest => .cons s rest.strictEnds

end Duck.Spec
