/-
  C01 specification: the documented line syntax, as a renderer from an instruction plus
  rendering choices to the text of one script line (and of a whole script).
  This file is the *specification side*: it does not mention the parser.
-/
import DuckModel.Chars
import DuckModel.Types

namespace Duck.Spec
open Duck

/-- the documented escapes: `\\`, `\"`, `\n`, `\r`, `\t` -/
def escChar (c : Char) : Str :=
  if c = '\\' then ['\\', '\\']
  else if c = '"' then ['\\', '"']
  else if c = '\n' then ['\\', 'n']
  else if c = '\r' then ['\\', 'r']
  else if c = '\t' then ['\\', 't']
  else [c]

def escape (s : Str) : Str := s.flatMap escChar

/-- an argument may be written without quotes when it is non-empty, has no space and no `#`,
    does not start or end with a white-space character (the line is trimmed with Unicode white
    space), and does not start with `"` or `=`.  White space other than the space character in the
    MIDDLE of an unquoted argument is allowed: only ' ' separates tokens (tab, CR and LF are written
    as `\t`, `\r`, `\n` by `escape`; the other white-space characters are written raw). -/
def canUnquote (s : Str) : Bool :=
  !s.isEmpty && s.all (fun c => c != ' ' && c != '#') &&
    (match s.head? with | some c => !isWs c | none => true) &&
    (match s.getLast? with | some c => !isWs c | none => true) &&
    s.head? != some '"' && s.head? != some '='

/-- `q` = "quote although it is optional" -/
def renderArg (q : Bool) (s : Str) : Str :=
  if q || !canUnquote s then '"' :: (escape s ++ ['"']) else escape s

def spaces (k : Nat) : Str := List.replicate k ' '

/-- rendering choices the syntax allows -/
structure Choices where
  /-- leading / trailing white space of the line (any Unicode white space but LF) -/
  lead : Str := []
  trail : Str := []
  /-- extra spaces (beyond the mandatory one) after the label -/
  afterLabel : Nat := 0
  /-- spaces before and after `=` (`x=cmd` … `x   =  cmd`) -/
  eqBefore : Nat := 0
  eqAfter : Nat := 0
  /-- per argument: extra spaces before it, and quote-although-optional -/
  args : List (Nat × Bool) := []
  /-- optional trailing comment: spaces before `#`, and the comment text -/
  comment : Option (Nat × Str) := none
deriving Repr

def argChoice (ch : List (Nat × Bool)) (i : Nat) : Nat × Bool := (ch[i]?).getD (0, false)

def renderArgs (ch : List (Nat × Bool)) : Nat → List Str → Str
  | _, [] => []
  | i, a :: as =>
    spaces ((argChoice ch i).1 + 1) ++ renderArg (argChoice ch i).2 a ++ renderArgs ch (i + 1) as

def renderComment : Option (Nat × Str) → Str
  | none => []
  | some (k, t) => spaces k ++ '#' :: t

/-- the part of the line from the output variable on -/
def renderCore (ch : Choices) (i : ScriptInstr) : Str :=
  (match i.output with
   | some o => o ++ spaces ch.eqBefore ++ '=' :: spaces ch.eqAfter
   | none => []) ++
  (match i.command with
   | some c => c ++ renderArgs ch.args 0 (i.args.getD [])
   | none => [])

def renderBody (ch : Choices) (i : ScriptInstr) : Str :=
  (match i.label with
   | some l =>
     if i.output.isNone ∧ i.command.isNone then l
     else l ++ spaces (ch.afterLabel + 1)
   | none => []) ++ renderCore ch i ++ renderComment ch.comment

def renderLine (ch : Choices) (i : ScriptInstr) : Str :=
  ch.lead ++ renderBody ch i ++ ch.trail

/-- a token usable as label name / output variable / command -/
def NameOK (s : Str) : Prop :=
  s ≠ [] ∧ (∀ c ∈ s, isWs c = false ∧ c ≠ '#' ∧ c ≠ '\\') ∧ s.head? ≠ some '"'

def NoEq (s : Str) : Prop := ∀ c ∈ s, c ≠ '='

/-- the first token of a line must not look like a label, a directive or a comment -/
def FirstOK (s : Str) : Prop := s.head? ≠ some ':' ∧ s.head? ≠ some '!'

/-- well-formed instruction (the domain of C01) -/
structure InstrOK (i : ScriptInstr) : Prop where
  label : ∀ l, i.label = some l → ∃ n, l = ':' :: n ∧ NameOK n
  output : ∀ o, i.output = some o → NameOK o ∧ NoEq o ∧ (i.label = none → FirstOK o)
  command : ∀ c, i.command = some c → NameOK c ∧ (i.output = none → NoEq c ∧ (i.label = none → FirstOK c))
  /-- arguments only together with a command; `some []` is not a parse result -/
  args : (i.command = none → i.args = none) ∧ i.args ≠ some []

structure ChoicesOK (ch : Choices) : Prop where
  lead : ∀ c ∈ ch.lead, isWs c = true ∧ c ≠ '\n'
  trail : ∀ c ∈ ch.trail, isWs c = true ∧ c ≠ '\n'
  comment : ∀ k t, ch.comment = some (k, t) → ∀ c ∈ t, c ≠ '\n'

/-- what parsing the line must give back -/
def expected (i : ScriptInstr) : InstrType :=
  if i.label.isNone ∧ i.output.isNone ∧ i.command.isNone then .empty else .script i

/-- a script: every line terminated by LF or CRLF (per-line choice) -/
def renderScript : List (Choices × ScriptInstr × Bool) → Str
  | [] => []
  | (ch, i, crlf) :: rest =>
    renderLine ch i ++ (if crlf then ['\r', '\n'] else ['\n']) ++ renderScript rest

/-- the same script with the final line terminator left out -/
def renderScriptOpen : List (Choices × ScriptInstr × Bool) → Str
  | [] => []
  | [(ch, i, _)] => renderLine ch i
  | (ch, i, crlf) :: rest =>
    renderLine ch i ++ (if crlf then ['\r', '\n'] else ['\n']) ++ renderScriptOpen rest

/-- the instructions the script must parse to: the k-th carries line number k (1-based) -/
def numbered : Nat → List (Choices × ScriptInstr × Bool) → List Instruction
  | _, [] => []
  | n, (_, i, _) :: rest => ⟨{ line := some n, source := none }, expected i⟩ :: numbered (n + 1) rest

end Duck.Spec

namespace Duck.Spec
open Duck

/-! Decidable versions of the domain predicates (used by the driver to confirm that a
    generated case is inside the domain of the C01 theorems). -/

def nameOKb (s : Str) : Bool :=
  !s.isEmpty && s.all (fun c => !isWs c && c != '#' && c != '\\') && s.head? != some '"'

def noEqb (s : Str) : Bool := s.all (· != '=')

def firstOKb (s : Str) : Bool := s.head? != some ':' && s.head? != some '!'

def instrOKb (i : ScriptInstr) : Bool :=
  (match i.label with
   | none => true
   | some l => match l with
     | ':' :: n => nameOKb n
     | _ => false) &&
  (match i.output with
   | none => true
   | some o => nameOKb o && noEqb o && (i.label.isSome || firstOKb o)) &&
  (match i.command with
   | none => true
   | some c => nameOKb c && (i.output.isSome || (noEqb c && (i.label.isSome || firstOKb c)))) &&
  (i.command.isSome || i.args.isNone) && i.args != some []

def choicesOKb (ch : Choices) : Bool :=
  ch.lead.all (fun c => isWs c && c != '\n') && ch.trail.all (fun c => isWs c && c != '\n') &&
  (match ch.comment with
   | none => true
   | some (_, t) => t.all (· != '\n'))

end Duck.Spec
