/-
  C16 — the numeric reading of an `f64` literal, as exact arithmetic: what "numeric order" means
  for `less_than` / `greater_than`, independently of any floating-point format.

  A literal denotes NaN, ±infinity, or the rational  num / den  with
  `num = ± mant · 10^max(exp,0)` (an integer) and `den = 10^max(-exp,0)` (a positive natural).
  Order between rationals is cross-multiplication over `Int`; ±infinity are the ends of the order.
  Only the datatype `Lit` (what the reader of Sdk/F64.lean hands out) is shared with the model; no
  rounding, no binary format appears here.
-/
import DuckModel.Sdk.F64

namespace Duck.F64

/-- sign applied to a magnitude -/
def sgn (neg : Bool) (v : Nat) : Int := if neg then -(v : Int) else (v : Int)

/-- integer numerator of the exact value (0 for the non-numbers) -/
def Lit.num : Lit → Int
  | .dec neg mant exp => sgn neg (mant * 10 ^ exp.toNat)
  | _ => 0

/-- positive denominator of the exact value -/
def Lit.den : Lit → Nat
  | .dec _ _ exp => 10 ^ (-exp).toNat
  | _ => 1

/-- exact strict order of the denoted values: never with a NaN; -inf < every rational < +inf -/
def Lit.exactLt (a b : Lit) : Prop :=
  match a, b with
  | .nan, _ => False
  | _, .nan => False
  | .inf na, .inf nb => na = true ∧ nb = false
  | .inf na, .dec _ _ _ => na = true
  | .dec _ _ _, .inf nb => nb = false
  | .dec n1 m1 e1, .dec n2 m2 e2 =>
    (Lit.dec n1 m1 e1).num * ((Lit.dec n2 m2 e2).den : Int) < (Lit.dec n2 m2 e2).num * ((Lit.dec n1 m1 e1).den : Int)

instance (a b : Lit) : Decidable (Lit.exactLt a b) := by
  unfold Lit.exactLt; split <;> infer_instance

/-- the literal's value IS a binary64 value: a literal infinity, or a rational equal to
    M · 2^F / 2^1074 with M < 2^53 below the overflow threshold (every finite double, and nothing
    else, has this form) -/
def Lit.Representable : Lit → Prop
  | .nan => False
  | .inf _ => True
  | .dec _ mant exp => ∃ M F : Nat, M < 2 ^ 53 ∧ M * 2 ^ F < 2 ^ 2098 ∧
      mant * 10 ^ exp.toNat * 2 ^ 1074 = M * 2 ^ F * 10 ^ (-exp).toNat

/-- a plain decimal with at most 15 significant digits and at most 15 of them after the point:
    ± m / 10^s with m < 10^15, s ≤ 15 (the class `DBL_DIG = 15` speaks about) -/
def Lit.Decimal15 : Lit → Prop
  | .dec _ m e => m < 10 ^ 15 ∧ -15 ≤ e ∧ e ≤ 0
  | _ => False

end Duck.F64
