/-
  C02 specification: argument templates and their value under a variable environment.
  Specification side only (no reference to the scanner).
-/
import DuckModel.Vars

namespace Duck.Spec
open Duck

inductive Seg
  | lit (t : Str)       -- literal text, free of `$`, `%` and backslash
  | var (n : Str)       -- `${n}`
  | escVar (n : Str)    -- `\${n}` (stays the literal `${n}`)
deriving Repr

def Seg.render : Seg → Str
  | .lit t => t
  | .var n => '$' :: '{' :: (n ++ ['}'])
  | .escVar n => '\\' :: '$' :: '{' :: (n ++ ['}'])

/-- how a template is written in the script -/
def renderTemplate (t : List Seg) : Str := t.flatMap Seg.render

def Seg.value (vars : Vars) : Seg → Str
  | .lit t => t
  | .var n => (vars.get n).getD []
  | .escVar n => '$' :: '{' :: (n ++ ['}'])

/-- what the command must receive: values are inserted verbatim, whatever they contain -/
def tmplValue (vars : Vars) (t : List Seg) : Str := t.flatMap (Seg.value vars)

def LitOK (t : Str) : Prop := ∀ c ∈ t, c ≠ '$' ∧ c ≠ '%' ∧ c ≠ '\\'

/-- names free of `}`, spaces, `=` (and the other characters that end a key: tab, CR, LF) -/
def KeyOK (n : Str) : Prop :=
  ∀ c ∈ n, c ≠ '}' ∧ c ≠ ' ' ∧ c ≠ '=' ∧ c ≠ '\t' ∧ c ≠ '\r' ∧ c ≠ '\n'

def Seg.OK : Seg → Prop
  | .lit t => LitOK t
  | .var n => KeyOK n
  | .escVar n => KeyOK n ∧ LitOK n

/-- the written form of a whole-argument spread -/
def renderSpread (n : Str) : Str := '%' :: '{' :: (n ++ ['}'])

/-- the space-separated words of a value -/
def words (v : Str) : List Str := go v []
where
  go : Str → Str → List Str
    | [], cur => if cur.isEmpty then [] else [cur]
    | c :: rest, cur =>
      if c = ' ' then (if cur.isEmpty then go rest [] else cur :: go rest [])
      else go rest (cur ++ [c])

/-- values whose spread is plain word splitting (no quote grouping, no comment start) -/
def SpreadPlain (v : Str) : Prop := ∀ c ∈ v, c ≠ '"' ∧ c ≠ '#'

end Duck.Spec
