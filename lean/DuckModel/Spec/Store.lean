/-
  C12 — reference model, written from the property text:

    "each output equals that of a reference model holding a vector, a key-value map or a set of
     strings per live handle.  Handles are distinct while live, an operation given a released,
     unknown or wrong-kind handle reports an error (or false) and leaves every collection
     unchanged, and values are stored and returned verbatim."

  The store is a FUNCTION from handle to an optional plain collection; updating it touches one
  handle only, by construction.  Everything a collection holds is a string (the cells made by
  `range` hold the decimal numerals).  A finite map is a list of key/value pairs with distinct
  keys in the order the keys were first put; a set is a list of distinct strings in the order
  they were first put.  Two commands expose an enumeration order (`map_keys`, `set_to_array`);
  the property does not fix it (hash order in the code); the reference answer is the ascending
  order and the harness sorts the real answer.

  This file does not mention the implementation model (`Sdk/Collections.lean`); it shares only
  the command vocabulary (`Sdk/CollectionsCmd.lean`).
-/
import DuckModel.Types
import DuckModel.Sdk.CollectionsCmd

namespace Duck.Spec.Store
open Duck

inductive Coll
  | vec (l : List Str)
  | map (m : List (Str × Str))
  | set (s : List Str)
deriving DecidableEq, Repr, Inhabited

abbrev Store := Str → Option Coll

inductive Out
  | val (o : Option Str)
  | err
deriving DecidableEq, Repr, Inhabited

structure St where
  store : Store
  /-- number of the next handle to hand out -/
  next : Nat

def empty : St := { store := fun _ => none, next := 1 }

/-- the k-th handle -/
def handleName (k : Nat) : Str := "handle:".toList ++ (Nat.repr k).toList

def upd (σ : Store) (h : Str) (c : Option Coll) : Store := fun k => if k = h then c else σ k

def yes : Str := "true".toList
def no : Str := "false".toList
def bool (b : Bool) : Str := if b then yes else no
def nat (n : Nat) : Str := (Nat.repr n).toList

/-- a new collection under a handle that was never handed out before -/
def alloc (s : St) (c : Coll) : St × Out :=
  ({ store := upd s.store (handleName s.next) (some c), next := s.next + 1 }, .val (some (handleName s.next)))

/-- operate on the vector behind `h`; anything else behind `h` (or nothing): error, no change -/
def onVec (s : St) (h : Str) (f : List Str → List Str × Out) : St × Out :=
  match s.store h with
  | some (.vec l) => ({ s with store := upd s.store h (some (.vec (f l).1)) }, (f l).2)
  | _ => (s, .err)

def onMap (s : St) (h : Str) (f : List (Str × Str) → List (Str × Str) × Out) : St × Out :=
  match s.store h with
  | some (.map m) => ({ s with store := upd s.store h (some (.map (f m).1)) }, (f m).2)
  | _ => (s, .err)

def onSet (s : St) (h : Str) (f : List Str → List Str × Out) : St × Out :=
  match s.store h with
  | some (.set x) => ({ s with store := upd s.store h (some (.set (f x).1)) }, (f x).2)
  | _ => (s, .err)

/-- read the vector behind `h` (no change of state); anything else: error -/
def readVec (s : St) (h : Str) (g : List Str → Out) : St × Out :=
  match s.store h with
  | some (.vec l) => (s, g l)
  | _ => (s, .err)

def readMap (s : St) (h : Str) (g : List (Str × Str) → Out) : St × Out :=
  match s.store h with
  | some (.map m) => (s, g m)
  | _ => (s, .err)

def readSet (s : St) (h : Str) (g : List Str → Out) : St × Out :=
  match s.store h with
  | some (.set x) => (s, g x)
  | _ => (s, .err)

/-! plain containers -/

def lookup : List (Str × Str) → Str → Option Str
  | [], _ => none
  | (k, v) :: r, x => if k = x then some v else lookup r x

def put : List (Str × Str) → Str → Str → List (Str × Str)
  | [], x, v => [(x, v)]
  | (k, w) :: r, x, v => if k = x then (k, v) :: r else (k, w) :: put r x v

def del : List (Str × Str) → Str → List (Str × Str)
  | [], _ => []
  | (k, w) :: r, x => if k = x then r else (k, w) :: del r x

def add (s : List Str) (x : Str) : List Str := if x ∈ s then s else s ++ [x]
def addAll (s : List Str) (xs : List Str) : List Str := xs.foldl add s

def le : Str → Str → Bool
  | [], _ => true
  | _ :: _, [] => false
  | a :: r, b :: q => if a.toNat < b.toNat then true else if b.toNat < a.toNat then false else le r q

def ins (x : Str) : List Str → List Str
  | [] => [x]
  | y :: r => if le x y then x :: y :: r else y :: ins x r

def ascending : List Str → List Str
  | [] => []
  | x :: r => ins x (ascending r)

/-! numerals accepted as an index (`usize`) and as a range end (`i64`) -/

def digit (c : Char) : Option Nat :=
  if '0' ≤ c ∧ c ≤ '9' then some (c.toNat - 48) else none

def digits : List Char → Nat → Option Nat
  | [], acc => some acc
  | c :: r, acc =>
    match digit c with
    | none => none
    | some d => digits r (acc * 10 + d)

def index (s : Str) : Option Nat :=
  let body := match s with
    | '+' :: r => r
    | _ => s
  if body.isEmpty then none else
  match digits body 0 with
  | some n => if n < 2 ^ 64 then some n else none
  | none => none

def int64 (s : Str) : Option Int :=
  let (neg, body) := match s with
    | '+' :: r => (false, r)
    | '-' :: r => (true, r)
    | _ => (false, s)
  if body.isEmpty then none else
  match digits body 0 with
  | some n =>
    if neg then (if n ≤ 2 ^ 63 then some (- (n : Int)) else none)
    else (if n < 2 ^ 63 then some (n : Int) else none)
  | none => none

def firstIndex (v : Str) : List Str → Nat → Option Nat
  | [], _ => none
  | x :: r, i => if x = v then some i else firstIndex v r (i + 1)

def join (sep : Str) : List Str → Str
  | [] => []
  | [x] => x
  | x :: y :: r => x ++ sep ++ join sep (y :: r)

def vecs? (σ : Store) : List Str → Option (List (List Str))
  | [] => some []
  | h :: r =>
    match σ h with
    | some (.vec l) => (vecs? σ r).map (l :: ·)
    | _ => none

/-- strings held by a collection (what `release -r` follows) -/
def members : Coll → List Str
  | .vec l => l
  | .map m => m.map Prod.snd
  | .set x => x

/-- numerals made by `range` are never handles; the vector cells made by `range` are kept as
    numerals in the code and are not followed.  In the reference model a numeral is simply a
    string that is no live handle (handles start with `handle:`), so following it is harmless:
    `releaseAll` ignores strings that are not live. -/
def releaseAll (f : Store → Str → Option (Store × Bool)) : List Str → Store → Option Store
  | [], σ => some σ
  | c :: cs, σ =>
    match f σ c with
    | none => none
    | some (σ', _) => releaseAll f cs σ'

/-- release `h` and, transitively, every live handle stored in what is released
    (`none` = fuel exhausted; fuel is consumed only when a live handle is released) -/
def releaseRec : Nat → Store → Str → Option (Store × Bool)
  | 0, σ, h =>
    match σ h with
    | none => some (σ, false)
    | some _ => none
  | fuel + 1, σ, h =>
    match σ h with
    | none => some (σ, false)
    | some c => (releaseAll (releaseRec fuel) (members c) (upd σ h none)).map fun σ' => (σ', true)

def recFlag (a : Str) : Bool := a = "-r".toList || a = "--recursive".toList

def okTrue : Out → Out
  | .val _ => .val (some yes)
  | .err => .err

/-- expected state and output of every command.  `fuel` bounds the recursive release only
    (`C12_refines`: the answers do not depend on it once it is at least the number of live
    handles). -/
def exec (fuel : Nat) (s : St) (c : CollCmd) (args : List Str) : St × Out :=
  match c, args with
  -- constructors
  | .array, vs => alloc s (.vec vs)
  | .range, a :: b :: _ =>
    (match int64 a, int64 b with
     | some st, some en =>
       if st > en then (s, .err)
       else alloc s (.vec ((List.range (en - st).toNat).map fun (k : Nat) => (toString (st + Int.ofNat k)).toList))
     | _, _ => (s, .err))
  | .range, _ => (s, .err)
  | .map, _ => alloc s (.map [])
  | .setNew, vs => alloc s (.set (addAll [] vs))
  -- vectors
  | .arrayPush, h :: vs => onVec s h fun l => (l ++ vs, .val (some yes))
  | .arrayPop, h :: _ => onVec s h fun l => (l.dropLast, .val l.getLast?)
  | .arrayGet, h :: i :: _ =>
    (match index i with
     | some n => onVec s h fun l => (l, .val l[n]?)
     | none => (s, .err))
  | .arraySet, h :: i :: v :: _ =>
    (match index i with
     | some n => onVec s h fun l => if n < l.length then (l.set n v, .val (some yes)) else (l, .err)
     | none => (s, .err))
  | .arrayRemove, h :: i :: _ =>
    (match index i with
     | some n => onVec s h fun l => if n < l.length then (l.eraseIdx n, .val (some yes)) else (l, .err)
     | none => (s, .err))
  | .arrayClear, h :: _ => onVec s h fun _ => ([], .val (some yes))
  | .arrayLength, h :: _ => readVec s h fun l => .val (some (nat l.length))
  | .arrayIsEmpty, h :: _ => readVec s h fun l => .val (some (bool l.isEmpty))
  | .arrayContains, h :: v :: _ =>
    (match s.store h with
     | some (.vec l) =>
       (match firstIndex v l 0 with
        | some i => (s, .val (some (nat i)))
        | none => (s, .val (some no)))
     | _ => (s, .val (some no)))
  | .arrayJoin, h :: sep :: _ => readVec s h fun l => .val (some (join sep l))
  | .arrayConcat, hs =>
    (match vecs? s.store hs with
     | some ls => alloc s (.vec ls.flatten)
     | none => (s, .err))
  -- maps
  | .mapPut, h :: k :: v :: _ => onMap s h fun m => (put m k v, .val (some yes))
  | .mapGet, h :: k :: _ => onMap s h fun m => (m, .val (lookup m k))
  | .mapRemove, h :: k :: _ => onMap s h fun m => (del m k, .val (lookup m k))
  | .mapSize, h :: _ => readMap s h fun m => .val (some (nat m.length))
  | .mapClear, h :: _ => onMap s h fun _ => ([], .val (some yes))
  | .mapKeys, h :: _ =>
    (match s.store h with
     | some (.map m) => alloc s (.vec (ascending (m.map Prod.fst)))
     | _ => (s, .err))
  | .mapContainsKey, h :: k :: _ => readMap s h fun m => .val (some (bool (lookup m k).isSome))
  | .mapContainsValue, h :: v :: _ => readMap s h fun m => .val (some (bool ((m.map Prod.snd).contains v)))
  | .mapIsEmpty, h :: _ => readMap s h fun m => .val (some (bool m.isEmpty))
  -- sets
  | .setPut, h :: vs => onSet s h fun x => (addAll x vs, .val (some yes))
  | .setRemove, h :: v :: _ => onSet s h fun x => (x.filter (· ≠ v), .val (some (bool (x.contains v))))
  | .setContains, h :: v :: _ => onSet s h fun x => (x, .val (some (bool (x.contains v))))
  | .setSize, h :: _ => readSet s h fun x => .val (some (nat x.length))
  | .setClear, h :: _ => onSet s h fun _ => ([], .val (some yes))
  | .setIsEmpty, h :: _ => readSet s h fun x => .val (some (bool x.isEmpty))
  | .setToArray, h :: _ =>
    (match s.store h with
     | some (.set x) => alloc s (.vec (ascending x))
     | _ => (s, .err))
  | .setFromArray, h :: _ =>
    (match s.store h with
     | some (.vec l) => alloc s (.set (addAll [] l))
     | _ => (s, .err))
  -- kind tests: never an error for a given argument
  | .isArray, h :: _ => (s, .val (some (bool (match s.store h with | some (.vec _) => true | _ => false))))
  | .isMap, h :: _ => (s, .val (some (bool (match s.store h with | some (.map _) => true | _ => false))))
  | .isSet, h :: _ => (s, .val (some (bool (match s.store h with | some (.set _) => true | _ => false))))
  -- release
  | .release, [] => (s, .val (some no))
  | .release, [h] => ({ s with store := upd s.store h none }, .val (some (bool (s.store h).isSome)))
  | .release, a :: b :: _ =>
    if recFlag a then
      (match releaseRec fuel s.store b with
       | some (σ, r) => ({ s with store := σ }, .val (some (bool r)))
       | none => (s, .err))
    else ({ s with store := upd s.store a none }, .val (some (bool (s.store a).isSome)))
  -- too few arguments
  | _, _ => (s, .err)

def run (fuel : Nat) (s : St) : List (CollCmd × List Str) → St × List Out
  | [] => (s, [])
  | (c, a) :: rest =>
    let (s1, r) := exec fuel s c a
    let (s2, rs) := run fuel s1 rest
    (s2, r :: rs)

end Duck.Spec.Store
