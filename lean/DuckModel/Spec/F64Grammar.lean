/-
  C16 — the literal grammar of `str::parse::<f64>` as CONCRETE SYNTAX: a literal is written by
  choosing a sign, integer digits, optionally a point with fraction digits, optionally an exponent
  (marker `e` or `E`, optional sign, digits) - or one of the words `nan`, `inf`, `infinity` in any
  mix of upper and lower case.  `render` writes the text, `denote` says what it means (only the
  datatype `Lit` of denotations is shared with the model; the reader `parseLit` is not mentioned).
-/
import DuckModel.Sdk.F64

namespace Duck.F64

/-- an ASCII decimal digit -/
def isDec (c : Char) : Bool := '0'.toNat ≤ c.toNat && c.toNat ≤ '9'.toNat

/-- value of a digit string, most significant digit first -/
def decVal (l : List Char) : Nat := l.foldl (fun acc c => 10 * acc + (c.toNat - '0'.toNat)) 0

/-- the written sign: none, `+` (`some false`) or `-` (`some true`) -/
def signText : Option Bool → Str
  | none => []
  | some false => ['+']
  | some true => ['-']

/-- concrete syntax of a numeric literal -/
structure NumCst where
  sign : Option Bool
  ip : List Char                                   -- digits before the point (may be empty: `.5`)
  frac : Option (List Char)                        -- `some f`: a point is written, then the digits f (may be empty: `5.`)
  exp : Option (Bool × Option Bool × List Char)    -- upper-case marker?, exponent sign, exponent digits

def NumCst.fracDigits (c : NumCst) : List Char := c.frac.getD []

/-- well-formed: digits are digits, at least one mantissa digit, exponent digits required -/
def NumCst.WF (c : NumCst) : Prop :=
  c.ip.all isDec = true ∧ c.fracDigits.all isDec = true ∧ c.ip ++ c.fracDigits ≠ [] ∧
  (∀ up es ed, c.exp = some (up, es, ed) → ed ≠ [] ∧ ed.all isDec = true)

/-- the exponent part as written -/
def expTextOf : Option (Bool × Option Bool × List Char) → Str
  | none => []
  | some (up, es, ed) => (if up then 'E' else 'e') :: (signText es ++ ed)

/-- the written exponent as an integer (0 when absent) -/
def expValOf : Option (Bool × Option Bool × List Char) → Int
  | none => 0
  | some (_, es, ed) => if es = some true then -(decVal ed : Int) else (decVal ed : Int)

def NumCst.expText (c : NumCst) : Str := expTextOf c.exp

def NumCst.render (c : NumCst) : Str :=
  signText c.sign ++ (c.ip ++ ((match c.frac with | none => [] | some f => '.' :: f) ++ c.expText))

def NumCst.expVal (c : NumCst) : Int := expValOf c.exp

/-- ± (all mantissa digits as one integer) · 10^(written exponent − number of fraction digits) -/
def NumCst.denote (c : NumCst) : Lit :=
  .dec (c.sign == some true) (decVal (c.ip ++ c.fracDigits)) (c.expVal - (c.fracDigits.length : Int))

/-- the upper-case form of a lower-case ASCII letter -/
def upperOf (c : Char) : Char := Char.ofNat (c.toNat - 32)

/-- every way of writing a lower-case word with each letter in either case -/
def caseVariants : List Char → List (List Char)
  | [] => [[]]
  | c :: r => (caseVariants r).flatMap fun w => [c :: w, upperOf c :: w]

/-- concrete syntax of the non-numbers: sign, then `nan` / `inf` / `infinity` in any casing -/
inductive WordLit : Str → Lit → Prop
  | nan (sg : Option Bool) (w : Str) : w ∈ caseVariants "nan".toList → WordLit (signText sg ++ w) .nan
  | inf (sg : Option Bool) (w : Str) :
      w ∈ caseVariants "inf".toList ∨ w ∈ caseVariants "infinity".toList →
      WordLit (signText sg ++ w) (.inf (sg == some true))

end Duck.F64
