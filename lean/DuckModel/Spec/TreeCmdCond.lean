/-
  The "simple2" fragment: the simple fragment (Spec/TreeSimple.lean) plus COMMAND conditions —
  conditions whose first written word is the literal name of a pure command of the simple set
  (`equals`, `lt`, `emit`), or `not` followed by such a command condition or by a value
  condition.  Command conditions are evaluated by re-serialising the bound values, parsing the
  text again and running the one instruction in the nested mini-runner (the C09 path), so the
  simulation theorem needs the bound values to survive that round trip: `condArgsSafe`, and the
  run-time predicate `safeBlock …` ("every time a condition is evaluated in this tree run, its
  bound arguments are safe").
-/
import DuckModel.Spec.TreeSimple
import DuckModel.Sdk.Reserialize

namespace Duck.Spec
open Duck Duck.Reser

/-- the word names one of the pure commands allowed in condition position -/
def isPureCondCmd (w : Str) : Bool :=
  match resolveCmd {} w with
  | some .equals => true
  | some .lt => true
  | some .emit => true
  | _ => false

/-- the word names the `not` command -/
def isNotCmd (w : Str) : Bool :=
  match resolveCmd {} w with
  | some .notC => true
  | _ => false

/-- a command condition: the first written word is the literal name of a pure command -/
def cmdCond (cond : List Str) : Bool :=
  match cond with
  | [] => false
  | h :: _ => isLiteral h && isPureCondCmd h

/-- `not` followed by a value condition or by a command condition -/
def notCond (cond : List Str) : Bool :=
  match cond with
  | [] => false
  | h :: rest => isLiteral h && isNotCmd h && (condSimple rest || cmdCond rest)

def condSimple2 (cond : List Str) : Bool := condSimple cond || cmdCond cond || notCond cond

/-- the BOUND words of a condition survive the re-serialisation round trip (C09): nothing is
    asked of value conditions; the arguments of a command are `Safe` and in admissible positions -/
def condArgsSafe (bound : List Str) : Bool :=
  match bound with
  | [] => true
  | first :: rest =>
    if isPureCondCmd first then rest.all Safe && positionOK rest
    else if isNotCmd first then
      rest.all Safe && positionOK rest &&
        (match rest with
         | [] => true
         | c :: rest' => if isPureCondCmd c then positionOK rest' else true)
    else true

mutual
  def Stmt.simple2 : Stmt → Bool
    | .line l => isSimpleCmd l.cmd && isLiteral l.cmd
    | .ifChain _ cond body elifs _ elseBody _ =>
      condSimple2 cond && body.simple2 && elifs.simple2 && elseBody.simple2
    | .whileLoop _ cond body _ => condSimple2 cond && body.simple2
    | .forIn _ x handle body _ =>
      isLiteral x && !x.isEmpty && body.simple2 &&
        (match handleVar? handle with
         | some h => x != h && !body.assigns h
         | none => false)
    | .fnDef _ _ _ _ _ => false
    | .ret _ _ => false
  def Block.simple2 : Block → Bool
    | .nil => true
    | .cons s rest => s.simple2 && rest.simple2
  def Elifs.simple2 : Elifs → Bool
    | .nil => true
    | .cons _ cond body rest => condSimple2 cond && body.simple2 && rest.simple2
end

/-! ### "every condition evaluated in this tree run has safe bound arguments"
    (Bool-valued, follows the tree interpreter step by step) -/

mutual
  def safeStmt (is : List Instruction) : Nat → Stmt → TState → Bool
    | 0, _, _ => true
    | fuel + 1, s, t =>
      match s with
      | .ifChain _ cond body elifs kwElse elseBody _ =>
        condArgsSafe (bind t.vars (some cond)) &&
          (match evalCond is fuel cond t with
           | none => true
           | some (true, t) => safeBlock is fuel body t
           | some (false, t) => safeElifs is fuel elifs kwElse elseBody t)
      | .whileLoop kw cond body kwEnd =>
        condArgsSafe (bind t.vars (some cond)) &&
          (match evalCond is fuel cond t with
           | some (true, t) =>
             safeBlock is fuel body t &&
               (match execBlock is fuel body t with
                | .normal t => safeStmt is fuel (.whileLoop kw cond body kwEnd) t
                | _ => true)
           | _ => true)
      | .forIn _ v handle body _ =>
        match bind t.vars (some [handle]) with
        | [h] => safeFor is fuel v ((t.sdk.handles.get h).getD []) body t
        | _ => true
      | _ => true
  def safeBlock (is : List Instruction) : Nat → Block → TState → Bool
    | 0, _, _ => true
    | fuel + 1, b, t =>
      match b with
      | .nil => true
      | .cons s rest =>
        safeStmt is fuel s t &&
          (match execStmt is fuel s t with
           | .normal t => safeBlock is fuel rest t
           | _ => true)
  def safeElifs (is : List Instruction) : Nat → Elifs → Option Str → Block → TState → Bool
    | 0, _, _, _, _ => true
    | fuel + 1, e, kwElse, elseBody, t =>
      match e with
      | .nil => if kwElse.isSome then safeBlock is fuel elseBody t else true
      | .cons _ cond body rest =>
        condArgsSafe (bind t.vars (some cond)) &&
          (match evalCond is fuel cond t with
           | none => true
           | some (true, t) => safeBlock is fuel body t
           | some (false, t) => safeElifs is fuel rest kwElse elseBody t)
  def safeFor (is : List Instruction) : Nat → Str → List Str → Block → TState → Bool
    | 0, _, _, _, _ => true
    | fuel + 1, v, items, body, t =>
      match items with
      | [] => true
      | x :: rest =>
        safeBlock is fuel body { t with vars := t.vars.set v x } &&
          (match execBlock is fuel body { t with vars := t.vars.set v x } with
           | .normal t => safeFor is fuel v rest body t
           | _ => true)
end

/-- the safety hypothesis of the simulation theorem for a whole program -/
def CondArgsSafe (fuel : Nat) (b : Block) (vars : Vars) : Prop :=
  safeBlock (program b) fuel b { vars := vars, sdk := {} } = true

end Duck.Spec
