/-
  C16 specification side of `calc`: "ordinary arithmetic on the generated expressions".
  An expression is built from integer literals, decimal literals (`m / 10^k`, written with a
  decimal point), `+`, `-`, `*`, unary minus and `^` with a literal natural exponent; its
  meaning is its value in the field of rational numbers (Lean core `Rat`).
  Specification side only: nothing here mentions the command, evalexpr or floating point.
-/
namespace Duck.Spec

inductive Expr
  | int (n : Nat)                -- `123`
  | dec (m : Nat) (k : Nat)      -- `m / 10^k`: `1.25` is `dec 125 2`
  | add (a b : Expr)
  | sub (a b : Expr)
  | mul (a b : Expr)
  | neg (a : Expr)
  | pow (a : Expr) (n : Nat)
  deriving DecidableEq, Repr

/-- the value of an expression in ℚ -/
def Expr.denote : Expr → Rat
  | .int n => (n : Rat)
  | .dec m k => mkRat m (10 ^ k)
  | .add a b => a.denote + b.denote
  | .sub a b => a.denote - b.denote
  | .mul a b => a.denote * b.denote
  | .neg a => - a.denote
  | .pow a n => a.denote ^ n

/-- integer literals, `+`, `-`, `*`, unary minus only -/
def Expr.intOnly : Expr → Bool
  | .int _ => true
  | .dec _ _ => false
  | .add a b => a.intOnly && b.intOnly
  | .sub a b => a.intOnly && b.intOnly
  | .mul a b => a.intOnly && b.intOnly
  | .neg a => a.intOnly
  | .pow _ _ => false

/-- the value of an integer-only expression in ℤ (0 for the other constructors) -/
def Expr.evalInt : Expr → Int
  | .int n => n
  | .dec _ _ => 0
  | .add a b => a.evalInt + b.evalInt
  | .sub a b => a.evalInt - b.evalInt
  | .mul a b => a.evalInt * b.evalInt
  | .neg a => - a.evalInt
  | .pow _ _ => 0

end Duck.Spec
