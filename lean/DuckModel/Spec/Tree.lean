/-
  C04 / C05 specification: structured programs as trees, their flattening into script
  instructions (every keyword spelled as chosen), and a tree-walking interpreter.

  Condition evaluation and straight-line commands are the SAME functions the machine model
  uses (they are the subject of C06 / C09 / C16 …, not of C04): the tree interpreter only
  fixes the CONTROL structure — which branch runs, how often a body repeats, where control
  resumes — with no line numbers, no goto and no call stacks.
-/
import DuckModel.Sdk.Flow

namespace Duck.Spec
open Duck

/-- a straight-line instruction as written: optional output variable, command, written arguments -/
structure Line where
  out : Option Str
  cmd : Str
  args : List Str
deriving Repr

mutual
  inductive Stmt
    | line (l : Line)
    /-- `kwIf cond … (kwElif cond …)* (kwElse …)? kwEnd` -/
    | ifChain (kwIf : Str) (cond : List Str) (body : Block) (elifs : Elifs)
        (kwElse : Option Str) (elseBody : Block) (kwEnd : Str)
    | whileLoop (kw : Str) (cond : List Str) (body : Block) (kwEnd : Str)
    | forIn (kw : Str) (v : Str) (handle : Str) (body : Block) (kwEnd : Str)
    /-- function definition: `kw [<scope>] name … kwEnd` -/
    | fnDef (kw : Str) (isScoped : Bool) (name : Str) (body : Block) (kwEnd : Str)
    /-- `return [value]` (only meaningful inside a function body) -/
    | ret (kw : Str) (value : Option Str)
  inductive Block
    | nil
    | cons (s : Stmt) (rest : Block)
  inductive Elifs
    | nil
    | cons (kw : Str) (cond : List Str) (body : Block) (rest : Elifs)
end

def mkInstr (out : Option Str) (cmd : Str) (args : List Str) : ScriptInstr :=
  { label := none, output := out, command := some cmd, args := if args.isEmpty then none else some args }

mutual
  /-- the script lines of a statement, in order -/
  def Stmt.flatten : Stmt → List ScriptInstr
    | .line l => [mkInstr l.out l.cmd l.args]
    | .ifChain kwIf cond body elifs kwElse elseBody kwEnd =>
      mkInstr none kwIf cond :: (body.flatten ++ elifs.flatten ++
        (match kwElse with
         | some k => mkInstr none k [] :: elseBody.flatten
         | none => []) ++ [mkInstr none kwEnd []])
    | .whileLoop kw cond body kwEnd => mkInstr none kw cond :: (body.flatten ++ [mkInstr none kwEnd []])
    | .forIn kw v handle body kwEnd =>
      mkInstr none kw [v, "in".toList, handle] :: (body.flatten ++ [mkInstr none kwEnd []])
    | .fnDef kw isScoped name body kwEnd =>
      mkInstr none kw (if isScoped then ["<scope>".toList, name] else [name]) ::
        (body.flatten ++ [mkInstr none kwEnd []])
    | .ret kw value => [mkInstr none kw (match value with | some v => [v] | none => [])]
  def Block.flatten : Block → List ScriptInstr
    | .nil => []
    | .cons s rest => s.flatten ++ rest.flatten
  def Elifs.flatten : Elifs → List ScriptInstr
    | .nil => []
    | .cons kw cond body rest => mkInstr none kw cond :: (body.flatten ++ rest.flatten)
end

/-- the program as a list of instructions (line numbers as the parser assigns them) -/
def program (b : Block) : List Instruction :=
  go b.flatten 1
where
  go : List ScriptInstr → Nat → List Instruction
    | [], _ => []
    | si :: rest, n => ⟨{ line := some n, source := none }, .script si⟩ :: go rest (n + 1)

/-! ### the tree-walking interpreter -/

structure TState where
  vars : Vars
  sdk : Sdk

inductive TOut
  | normal (t : TState)
  /-- a `return` is propagating outwards -/
  | returning (value : Option Str) (t : TState)
  /-- the run stops with a failure (crash) -/
  | failed
  | outOfFuel

/-- decide a written condition: bind the arguments, then the shared evaluator -/
def evalCond (fuel : Nat) (is : List Instruction) (cond : List Str) (t : TState) : Option (Bool × TState) :=
  match evalCondition (evalInstrsF fuel) is (bind t.vars (if cond.isEmpty then none else some cond)) t.vars t.sdk with
  | (.ok b, vars, sdk) => some (b, ⟨vars, sdk⟩)
  | (.error _, _, _) => none

/-- a straight-line command, with the runner's documented reactions to its result:
    continue stores/deletes the output, error stores "false", crash stops the run -/
def execLine (fuel : Nat) (is : List Instruction) (l : Line) (t : TState) : TOut :=
  match resolveCmd t.sdk l.cmd with
  | none => .failed
  | some c =>
    let args := bind t.vars (if l.args.isEmpty then none else some l.args)
    match runCmdF (evalInstrsF fuel) is 3 c args l.out 0 t.vars t.sdk with
    | (.continue v, vars, sdk) => .normal ⟨Vars.updateOutput vars l.out v, sdk⟩
    | (.error _, vars, sdk) => .normal ⟨Vars.updateOutput vars l.out (some "false".toList), sdk⟩
    | (.crash _, _, _) => .failed
    | (.exit _, _, _) => .failed
    | (.goTo _ _, _, _) => .failed

mutual
  def execStmt (is : List Instruction) : Nat → Stmt → TState → TOut
    | 0, _, _ => .outOfFuel
    | fuel + 1, s, t =>
      match s with
      | .line l => execLine fuel is l t
      | .ifChain _ cond body elifs kwElse elseBody _ =>
        match evalCond fuel is cond t with
        | none => .failed
        | some (true, t) => execBlock is fuel body t
        | some (false, t) => execElifs is fuel elifs kwElse elseBody t
      | .whileLoop kw cond body kwEnd =>
        match evalCond fuel is cond t with
        | none => .failed
        | some (false, t) => .normal t
        | some (true, t) =>
          match execBlock is fuel body t with
          | .normal t => execStmt is fuel (.whileLoop kw cond body kwEnd) t
          | o => o
      | .forIn _ v handle body _ =>
        match (bind t.vars (some [handle])) with
        | [h] => execFor is fuel v ((t.sdk.handles.get h).getD []) body t
        | _ => .failed
      | .fnDef _ _ _ _ _ => .normal t
      | .ret _ value =>
        match value with
        | none => .returning none t
        | some w =>
          match bind t.vars (some [w]) with
          | [] => .returning none t
          | a :: _ => .returning (some a) t
  def execBlock (is : List Instruction) : Nat → Block → TState → TOut
    | 0, _, _ => .outOfFuel
    | fuel + 1, b, t =>
      match b with
      | .nil => .normal t
      | .cons s rest =>
        match execStmt is fuel s t with
        | .normal t => execBlock is fuel rest t
        | o => o
  def execElifs (is : List Instruction) : Nat → Elifs → Option Str → Block → TState → TOut
    | 0, _, _, _, _ => .outOfFuel
    | fuel + 1, e, kwElse, elseBody, t =>
      match e with
      | .nil => if kwElse.isSome then execBlock is fuel elseBody t else .normal t
      | .cons _ cond body rest =>
        match evalCond fuel is cond t with
        | none => .failed
        | some (true, t) => execBlock is fuel body t
        | some (false, t) => execElifs is fuel rest kwElse elseBody t
  def execFor (is : List Instruction) : Nat → Str → List Str → Block → TState → TOut
    | 0, _, _, _, _ => .outOfFuel
    | fuel + 1, v, items, body, t =>
      match items with
      | [] => .normal t
      | x :: rest =>
        match execBlock is fuel body ⟨t.vars.set v x, t.sdk⟩ with
        | .normal t => execFor is fuel v rest body t
        | o => o
end

/-- run a whole structured program (no functions: C04) -/
def runTree (fuel : Nat) (b : Block) (vars : Vars) : TOut :=
  execBlock (program b) fuel b ⟨vars, {}⟩

end Duck.Spec
