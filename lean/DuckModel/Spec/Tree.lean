/-
  C04 / C05 specification: structured programs as trees, their flattening into script
  instructions (every keyword spelled as chosen), and a tree-walking interpreter.

  Condition evaluation and straight-line commands are the SAME functions the machine model
  uses (they are the subject of C06 / C09 / C16 …, not of C04): the tree interpreter only
  fixes the CONTROL structure — which branch runs, how often a body repeats, where control
  resumes — with no line numbers, no goto and no call stacks.
-/
import DuckModel.Sdk.Flow

namespace Duck.Spec
open Duck

/-- a straight-line instruction as written: optional output variable, command, written arguments -/
structure Line where
  out : Option Str
  cmd : Str
  args : List Str
deriving Repr

mutual
  inductive Stmt
    | line (l : Line)
    /-- `kwIf cond … (kwElif cond …)* (kwElse …)? kwEnd` -/
    | ifChain (kwIf : Str) (cond : List Str) (body : Block) (elifs : Elifs)
        (kwElse : Option Str) (elseBody : Block) (kwEnd : Str)
    | whileLoop (kw : Str) (cond : List Str) (body : Block) (kwEnd : Str)
    | forIn (kw : Str) (v : Str) (handle : Str) (body : Block) (kwEnd : Str)
    /-- function definition: `kw [<scope>] name … kwEnd` -/
    | fnDef (kw : Str) (isScoped : Bool) (name : Str) (body : Block) (kwEnd : Str)
    /-- `return [value]` (only meaningful inside a function body) -/
    | ret (kw : Str) (value : Option Str)
  inductive Block
    | nil
    | cons (s : Stmt) (rest : Block)
  inductive Elifs
    | nil
    | cons (kw : Str) (cond : List Str) (body : Block) (rest : Elifs)
end

def mkInstr (out : Option Str) (cmd : Str) (args : List Str) : ScriptInstr :=
  { label := none, output := out, command := some cmd, args := if args.isEmpty then none else some args }

mutual
  /-- the script lines of a statement, in order -/
  def Stmt.flatten : Stmt → List ScriptInstr
    | .line l => [mkInstr l.out l.cmd l.args]
    | .ifChain kwIf cond body elifs kwElse elseBody kwEnd =>
      mkInstr none kwIf cond :: (body.flatten ++ elifs.flatten ++
        (match kwElse with
         | some k => mkInstr none k [] :: elseBody.flatten
         | none => []) ++ [mkInstr none kwEnd []])
    | .whileLoop kw cond body kwEnd => mkInstr none kw cond :: (body.flatten ++ [mkInstr none kwEnd []])
    | .forIn kw v handle body kwEnd =>
      mkInstr none kw [v, "in".toList, handle] :: (body.flatten ++ [mkInstr none kwEnd []])
    | .fnDef kw isScoped name body kwEnd =>
      mkInstr none kw (if isScoped then ["<scope>".toList, name] else [name]) ::
        (body.flatten ++ [mkInstr none kwEnd []])
    | .ret kw value => [mkInstr none kw (match value with | some v => [v] | none => [])]
  def Block.flatten : Block → List ScriptInstr
    | .nil => []
    | .cons s rest => s.flatten ++ rest.flatten
  def Elifs.flatten : Elifs → List ScriptInstr
    | .nil => []
    | .cons kw cond body rest => mkInstr none kw cond :: (body.flatten ++ rest.flatten)
end

/-- the program as a list of instructions (line numbers as the parser assigns them) -/
def program (b : Block) : List Instruction :=
  go b.flatten 1
where
  go : List ScriptInstr → Nat → List Instruction
    | [], _ => []
    | si :: rest, n => ⟨{ line := some n, source := none }, .script si⟩ :: go rest (n + 1)

/-! ### the tree-walking interpreter -/

/-- a defined function: scoped?, body -/
structure FnDef where
  isScoped : Bool
  body : Block

structure TState where
  vars : Vars
  sdk : Sdk
  /-- functions defined so far (latest definition first) -/
  fns : List (Str × FnDef) := []
  /-- number of function calls we are inside of -/
  depth : Nat := 0

inductive TOut
  | normal (t : TState)
  /-- a `return` is propagating outwards -/
  | returning (value : Option Str) (t : TState)
  /-- the run stops with a failure (crash) -/
  | failed
  | outOfFuel

def lookupFn (fns : List (Str × FnDef)) (name : Str) : Option FnDef :=
  match fns with
  | [] => none
  | (n, d) :: rest => if n = name then some d else lookupFn rest name

/-- a straight-line command, with the runner's documented reactions to its result:
    continue stores/deletes the output, error stores "false", crash stops the run -/
def execLine (fuel : Nat) (is : List Instruction) (l : Line) (t : TState) : TOut :=
  match resolveCmd t.sdk l.cmd with
  | none => .failed
  | some c =>
    let args := bind t.vars (if l.args.isEmpty then none else some l.args)
    match runCmdF (evalInstrsF fuel) is 3 c args l.out 0 t.vars t.sdk with
    | (.continue v, vars, sdk) => .normal { t with vars := Vars.updateOutput vars l.out v, sdk := sdk }
    | (.error _, vars, sdk) => .normal { t with vars := Vars.updateOutput vars l.out (some "false".toList), sdk := sdk }
    | (.crash _, _, _) => .failed
    | (.exit _, _, _) => .failed
    | (.goTo _ _, _, _) => .failed

/-- bind the call's arguments to `1`..`n` -/
def bindParams (vars : Vars) (args : List Str) : Vars :=
  (args.zipIdx).foldl (fun m (a, i) => m.set (natToStr (i + 1)) a) vars

/-- what the caller's variables are after a call ended: for a `<scope>` function exactly the
    variables before the call plus the returned output variable; otherwise the body's variables -/
def afterCall (f : FnDef) (saved : Vars) (out : Option Str) (viaReturn : Bool) (bodyVars : Vars) : Vars :=
  if f.isScoped then
    match (if viaReturn then out else none) with
    | some name =>
      match bodyVars.get name with
      | some v => saved.set name v
      | none => saved
    | none => saved
  else bodyVars

mutual
  def execStmt (is : List Instruction) : Nat → Stmt → TState → TOut
    | 0, _, _ => .outOfFuel
    | fuel + 1, s, t =>
      match s with
      | .line l =>
        match lookupFn t.fns l.cmd with
        | some f =>
          let args := bind t.vars (if l.args.isEmpty then none else some l.args)
          match execCall is fuel f args l.out t with
          | (.normal t, _) => .normal t
          | (o, _) => o
        | none => execLine fuel is l t
      | .ifChain _ cond body elifs kwElse elseBody _ =>
        match evalCond is fuel cond t with
        | none => .failed
        | some (true, t) => execBlock is fuel body t
        | some (false, t) => execElifs is fuel elifs kwElse elseBody t
      | .whileLoop kw cond body kwEnd =>
        match evalCond is fuel cond t with
        | none => .failed
        | some (false, t) => .normal t
        | some (true, t) =>
          match execBlock is fuel body t with
          | .normal t => execStmt is fuel (.whileLoop kw cond body kwEnd) t
          | o => o
      | .forIn _ v handle body _ =>
        match (bind t.vars (some [handle])) with
        | [h] => execFor is fuel v ((t.sdk.handles.get h).getD []) body t
        | _ => .failed
      | .fnDef _ isScoped name body _ =>
        .normal { t with fns := (name, { isScoped := isScoped, body := body }) :: t.fns,
                         sdk := { t.sdk with fns := t.sdk.fns.put name { start := 0, stop := 0, isScoped := isScoped } } }
      | .ret _ value =>
        if t.depth = 0 then .normal t
        else
          match value with
          | none => .returning none t
          | some w =>
            match bind t.vars (some [w]) with
            | [] => .returning none t
            | a :: _ => .returning (some a) t
  /-- a call: the outcome, and the value the call produced (for condition position) -/
  def execCall (is : List Instruction) : Nat → FnDef → List Str → Option Str → TState → TOut × Option Str
    | 0, _, _, _, _ => (.outOfFuel, none)
    | fuel + 1, f, args, out, t =>
      let saved := t.vars
      let vars := bindParams (if f.isScoped then [] else t.vars) args
      let vars := match out with | some o => vars.erase o | none => vars
      match execBlock is fuel f.body { t with vars := vars, depth := t.depth + 1 } with
      | .normal t' => (.normal { t' with vars := afterCall f saved out false t'.vars, depth := t.depth }, none)
      | .returning v t' =>
        let bodyVars :=
          match out with
          | some name => (match v with | some x => t'.vars.set name x | none => t'.vars.erase name)
          | none => t'.vars
        (.normal { t' with vars := afterCall f saved out true bodyVars, depth := t.depth }, v)
      | o => (o, none)
  /-- decide a written condition: a call of a defined function in first position is run by
      the tree interpreter itself; everything else by the shared evaluator -/
  def evalCond (is : List Instruction) : Nat → List Str → TState → Option (Bool × TState)
    | 0, _, _ => none
    | fuel + 1, cond, t =>
      let bound := bind t.vars (if cond.isEmpty then none else some cond)
      match bound with
      | first :: rest =>
        match lookupFn t.fns first with
        | some f =>
          match execCall is fuel f rest none t with
          | (.normal t, v) => some (isTrue v, t)
          | _ => none
        | none =>
          match evalCondition (evalInstrsF fuel) is bound t.vars t.sdk with
          | (.ok b, vars, sdk) => some (b, { t with vars := vars, sdk := sdk })
          | (.error _, _, _) => none
      | [] => some (isTrue none, t)
  def execBlock (is : List Instruction) : Nat → Block → TState → TOut
    | 0, _, _ => .outOfFuel
    | fuel + 1, b, t =>
      match b with
      | .nil => .normal t
      | .cons s rest =>
        match execStmt is fuel s t with
        | .normal t => execBlock is fuel rest t
        | o => o
  def execElifs (is : List Instruction) : Nat → Elifs → Option Str → Block → TState → TOut
    | 0, _, _, _, _ => .outOfFuel
    | fuel + 1, e, kwElse, elseBody, t =>
      match e with
      | .nil => if kwElse.isSome then execBlock is fuel elseBody t else .normal t
      | .cons _ cond body rest =>
        match evalCond is fuel cond t with
        | none => .failed
        | some (true, t) => execBlock is fuel body t
        | some (false, t) => execElifs is fuel rest kwElse elseBody t
  def execFor (is : List Instruction) : Nat → Str → List Str → Block → TState → TOut
    | 0, _, _, _, _ => .outOfFuel
    | fuel + 1, v, items, body, t =>
      match items with
      | [] => .normal t
      | x :: rest =>
        match execBlock is fuel body { t with vars := t.vars.set v x } with
        | .normal t => execFor is fuel v rest body t
        | o => o
end

/-- run a whole structured program -/
def runTree (fuel : Nat) (b : Block) (vars : Vars) : TOut :=
  execBlock (program b) fuel b { vars := vars, sdk := {} }

end Duck.Spec
