/-
  C10 specification: the error record as the property statement reads it.

  A run is seen as a sequence of events; the record that the three queries answer from, and
  the "errors are fatal" mode, are a fold over those events: the latest event that writes a
  field decides it.  Nothing here mentions the command implementations.
-/
import DuckModel.Runner

namespace Duck.Spec
open Duck

/-- what `get_last_error`, `get_last_error_line`, `get_last_error_source` answer from, and
    whether errors are fatal (`exit_on_error`) -/
structure Record where
  error : Option Str := none
  line : Option Str := none
  source : Option Str := none
  fatal : Bool := false
deriving DecidableEq, Repr

/-- what one executed instruction means for the record -/
inductive Ev
  /-- the command of the instruction with meta information `mi` reported the error `m` -/
  | error (m : Str) (mi : Meta)
  /-- the script stored an error itself: `set_error m` executed at instruction index `pc` -/
  | setError (m : Str) (pc : Nat)
  /-- the script called `on_error m l s` itself -/
  | reported (m l s : Str)
  /-- `exit_on_error v` with `v` read as the truth value `b` -/
  | mode (b : Bool)
  /-- anything else -/
  | quiet
deriving DecidableEq, Repr

/-- line as decimal text ("0" if unknown), source ("" if unknown) -/
def lineText (mi : Meta) : Str := natToStr (mi.line.getD 0)
def sourceText (mi : Meta) : Str := mi.source.getD []

def Record.after (r : Record) : Ev → Record
  | .error m mi => { r with error := some m, line := some (lineText mi), source := some (sourceText mi) }
  | .setError m pc => { r with error := some m, line := some (natToStr pc), source := none }
  | .reported m l s => { r with error := some m, line := some l, source := some s }
  | .mode b => { r with fatal := b }
  | .quiet => r

/-- the record after a sequence of events -/
def Record.afterAll (r : Record) (evs : List Ev) : Record := evs.foldl Record.after r

/-- events that leave the three stored values alone -/
def Ev.keepsReport : Ev → Bool
  | .mode _ => true
  | .quiet => true
  | _ => false

/-- events that leave the mode alone -/
def Ev.keepsMode : Ev → Bool
  | .mode _ => false
  | _ => true

end Duck.Spec
