/-
  C11 specification: the variable commands and the scope stack read as a plain map
  (a function from names to optional values) and a stack of saved maps.  Written from the
  property statement and the commands' documented syntax; specification side only
  (no reference to the implementation model).

    push  saves everything and keeps only the copied names that are defined
    pop   restores the saved map and overlays the copied names that are defined;
          pops match pushes last-in-first-out; popping an empty stack is an error that
          changes nothing
-/
import DuckModel.Chars
import DuckModel.Types
import DuckModel.Spec.Cond

namespace Duck.Spec.MapStack
open Duck

/-- a plain map -/
abbrev Map := Str → Option Str

namespace Map
def empty : Map := fun _ => none
def put (m : Map) (k v : Str) : Map := fun x => if x = k then some v else m x
def del (m : Map) (k : Str) : Map := fun x => if x = k then none else m x
def delAll (m : Map) (ks : List Str) : Map := fun x => if x ∈ ks then none else m x
def delPrefix (m : Map) (p : Str) : Map := fun x => if p.isPrefixOf x = true then none else m x
/-- `out = <value>` : an absent value undefines the output variable -/
def assign (m : Map) (out : Option Str) (v : Option Str) : Map :=
  match out, v with
  | none, _ => m
  | some o, some x => m.put o x
  | some o, none => m.del o
/-- push keeps only the copied names (those that are defined keep their value) -/
def restrict (m : Map) (copy : List Str) : Map := fun x => if x ∈ copy then m x else none
/-- pop: the saved map, overlaid with the copied names that are defined now -/
def overlay (saved cur : Map) (copy : List Str) : Map := fun x =>
  if x ∈ copy then
    match cur x with
    | some v => some v
    | none => saved x
  else saved x
end Map

structure S where
  map : Map
  /-- saved maps, most recent first -/
  stack : List Map

def init : S := { map := Map.empty, stack := [] }

inductive Cmd
  | set | unset | setByName | getByName | isDefined | unsetAllVars | clearScope
  | pushStack | popStack

/-- `out = command args…`; `names` is get_all_var_names, whose result is an opaque token
    (a handle) under which the list of names is stored -/
inductive Op
  | cmd (out : Option Str) (c : Cmd) (args : List Str)
  | names (out : Option Str) (token : Str)

inductive Out
  | res (r : CmdResult)
  /-- the set of names reported by get_all_var_names -/
  | names (defined : Str → Bool)

def err : CmdResult := .error []
def yes : CmdResult := .continue (some "true".toList)
def tf (b : Bool) : Str := if b then "true".toList else "false".toList

/-- `set v1 or v2 or … vn` : the first truthy value, else the last one; a single argument is
    returned as it is; the chain is read left to right only as far as needed -/
def chain (v : Str) : List Str → CmdResult
  | [] => .continue (some v)
  | [_] => if truthy (some v) then .continue (some v) else err
  | o :: v' :: rest =>
    if truthy (some v) then .continue (some v)
    else if o = "or".toList then chain v' rest
    else err

def setValue : List Str → CmdResult
  | [] => .continue none
  | [v] => .continue (some v)
  | v :: rest => chain v rest

/-- `--copy n1 n2 …` -/
def copyOf : List Str → List Str
  | [] => []
  | a :: rest => if a = "--copy".toList then rest else []

def exec (s : S) : Cmd → List Str → S × CmdResult
  | .set, args => (s, setValue args)
  | .unset, names => ({ s with map := s.map.delAll names }, .continue none)
  | .setByName, [] => (s, err)
  | .setByName, [k] => ({ s with map := s.map.del k }, .continue none)
  | .setByName, k :: v :: _ => ({ s with map := s.map.put k v }, .continue (some v))
  | .getByName, [] => (s, .continue none)
  | .getByName, k :: _ => (s, .continue (s.map k))
  | .isDefined, [] => (s, err)
  | .isDefined, k :: _ => (s, .continue (some (tf (s.map k).isSome)))
  | .unsetAllVars, a :: p :: _ =>
    if a = "--prefix".toList then ({ s with map := s.map.delPrefix p }, .continue none)
    else ({ s with map := Map.empty }, .continue none)
  | .unsetAllVars, _ => ({ s with map := Map.empty }, .continue none)
  | .clearScope, [] => (s, err)
  | .clearScope, n :: _ => ({ s with map := s.map.delPrefix (n ++ "::".toList) }, .continue none)
  | .pushStack, args =>
    ({ map := s.map.restrict (copyOf args), stack := s.map :: s.stack }, yes)
  | .popStack, args =>
    match s.stack with
    | [] => (s, err)
    | saved :: rest => ({ map := Map.overlay saved s.map (copyOf args), stack := rest }, yes)

/-- what the interpreter stores in the output variable: the value of a successful command,
    `false` for a failed one -/
def stored : CmdResult → Option (Option Str)
  | .continue v => some v
  | .goTo v _ => some v
  | .exit v => some v
  | .error _ => some (some "false".toList)
  | .crash _ => none

def step (s : S) : Op → S × Out
  | .cmd out c args =>
    let (s', r) := exec s c args
    match stored r with
    | some v => ({ s' with map := s'.map.assign out v }, .res r)
    | none => (s', .res r)
  | .names out token =>
    ({ s with map := s.map.assign out (some token) }, .names fun k => (s.map k).isSome)

def run (s : S) : List Op → S × List Out
  | [] => (s, [])
  | op :: ops =>
    let (s', o) := step s op
    let (s'', os) := run s' ops
    (s'', o :: os)

end Duck.Spec.MapStack
