/-
  C02 specification, script-text side: how a command line whose arguments are templates
  (`Spec/Template.lean`) is WRITTEN in a script, the way the documentation describes it:

    cap arg1 arg2 …

  * a `${name}` is written `${name}`, a `\${name}` is written `\${name}`, a whole-argument
    spread `%{name}`;
  * in literal text a double quote is written `\"`, line feed `\n`, carriage return `\r`, tab `\t`,
    every other character as itself (literal text is free of `$`, `%` and backslash);
  * an argument is put between double quotes when it has to be (it is empty, or contains white
    space or `#`, or starts with `"` — it never does, `\"` starts with a backslash — or, being
    the first argument, starts with `=`), and MAY be put between quotes otherwise (`quote`).

  Specification side only: no reference to the parser.
-/
import DuckModel.Spec.Template
import DuckModel.Chars

namespace Duck.Spec
open Duck

/-- one character of literal text as written in a script -/
def litCharText (c : Char) : Str :=
  if c = '"' then ['\\', '"']
  else if c = '\n' then ['\\', 'n']
  else if c = '\r' then ['\\', 'r']
  else if c = '\t' then ['\\', 't']
  else [c]

def Seg.text : Seg → Str
  | .lit t => t.flatMap litCharText
  | .var n => '$' :: '{' :: (n ++ ['}'])
  | .escVar n => '\\' :: '$' :: '{' :: (n ++ ['}'])

/-- the text between the (optional) quotes -/
def tmplBody (t : List Seg) : Str := t.flatMap Seg.text

/-- an argument of a written command line -/
inductive WArg
  /-- a template, and whether the author chose to quote it although it is not necessary -/
  | tmpl (t : List Seg) (quote : Bool)
  | spread (n : Str)

/-- the body cannot stand without quotes -/
def bodyNeedsQuotes (first : Bool) (body : Str) : Bool :=
  body.isEmpty || body.any (fun c => isWs c || c == '#') || (first && body.head? == some '=')

def WArg.text (first : Bool) : WArg → Str
  | .tmpl t q =>
    let body := tmplBody t
    if q || bodyNeedsQuotes first body then '"' :: (body ++ ['"']) else body
  | .spread n => renderSpread n

/-- `cap a1 a2 …` with single spaces -/
def capLine (cmd : Str) (args : List WArg) : Str :=
  cmd ++ go true args
where
  go (first : Bool) : List WArg → Str
    | [] => []
    | a :: rest => ' ' :: (a.text first ++ go false rest)

/-- the argument as the parser is to deliver it to the runner (`Spec.renderTemplate` /
    `Spec.renderSpread`: the form C02's binding theorems start from) -/
def WArg.written : WArg → Str
  | .tmpl t _ => renderTemplate t
  | .spread n => renderSpread n

/-- what the command must receive for this argument -/
def WArg.expected (vars : Vars) : WArg → List Str
  | .tmpl t _ => [tmplValue vars t]
  | .spread n => words ((vars.get n).getD [])

/-- names inside `${…}` written in a script: besides `KeyOK`, nothing that the line scanner
    treats specially outside quotes is needed — the checks are on the BODY (white space / `#`
    force quotes) — but a name must not contain a double quote or a backslash (they would be
    read as quote end / escape) -/
def NameTextOK (n : Str) : Prop := KeyOK n ∧ ∀ c ∈ n, c ≠ '"' ∧ c ≠ '\\'

def Seg.TextOK : Seg → Prop
  | .lit t => LitOK t
  | .var n => NameTextOK n
  | .escVar n => NameTextOK n ∧ LitOK n

def WArg.OK : WArg → Prop
  | .tmpl t _ => ∀ s ∈ t, s.TextOK
  | .spread n => NameTextOK n ∧ ∀ c ∈ n, ¬ isWs c ∧ c ≠ '#'

/-- a command name that the line scanner reads as a plain command -/
def CmdTextOK (cmd : Str) : Prop :=
  cmd ≠ [] ∧ (∀ c ∈ cmd, ¬ isWs c ∧ c ≠ '#' ∧ c ≠ '"' ∧ c ≠ '\\' ∧ c ≠ '=' ∧ c ≠ '$' ∧ c ≠ '%') ∧
    cmd.head? ≠ some ':' ∧ cmd.head? ≠ some '!'

end Duck.Spec
