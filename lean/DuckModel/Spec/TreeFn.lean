/-
  The fragment of the C05 simulation theorem: a program is a list of function definitions
  followed by a main block.  Function bodies and the main block are in the simple2 fragment
  (Spec/TreeCmdCond.lean) plus
    * call lines `[out =] name args…` of defined functions (from the main block: any function;
      from a function body: functions defined EARLIER — no recursion),
    * in function bodies: `return [value]`, but not lexically inside a for-in body (known defect
      F-C05: the loop's iteration entry would survive the return).
  Conditions must not have a defined function as head (such a call would run inside the nested
  mini-runner).  Also: the run-time safety predicate for command conditions that follows calls
  into function bodies (`fsafeBlock`).
-/
import DuckModel.Spec.TreeCmdCond

namespace Duck.Spec
open Duck Duck.Reser

structure FnDecl where
  kw : Str
  isScoped : Bool
  name : Str
  body : Block
  kwEnd : Str

def FnDecl.stmt (d : FnDecl) : Stmt := .fnDef d.kw d.isScoped d.name d.body d.kwEnd

/-- the program: the definitions in order, then the main block -/
def withDefs : List FnDecl → Block → Block
  | [], main => main
  | d :: ds, main => .cons d.stmt (withDefs ds main)

/-- a name a function may get: a literal non-empty word that names no command (a definition under
    a command name is refused by the interpreter) and is not `on_error` (which the runner would
    call on every error) -/
def fnNameOK (n : Str) : Bool :=
  isLiteral n && !n.isEmpty && (resolveCmd {} n).isNone && n != onErrorName

/-- neither the head of the condition nor (after `not`) the head of the negated condition is a
    defined function -/
def condNoFn (names : List Str) (cond : List Str) : Bool :=
  match cond with
  | [] => true
  | [a] => !names.contains a
  | a :: b :: _ => !names.contains a && !names.contains b

mutual
  /-- may the statement assign variable `v`; `fa name v` = may a call of function `name` assign `v`
      in the caller's variables -/
  def Stmt.assignsF (fa : Str → Str → Bool) (v : Str) : Stmt → Bool
    | .line l => l.out == some v || fa l.cmd v
    | .ifChain _ _ body elifs _ elseBody _ =>
      body.assignsF fa v || elifs.assignsF fa v || elseBody.assignsF fa v
    | .whileLoop _ _ body _ => body.assignsF fa v
    | .forIn _ x _ body _ => x == v || body.assignsF fa v
    | .fnDef _ _ _ _ _ => false
    | .ret _ _ => false
  def Block.assignsF (fa : Str → Str → Bool) (v : Str) : Block → Bool
    | .nil => false
    | .cons s rest => s.assignsF fa v || rest.assignsF fa v
  def Elifs.assignsF (fa : Str → Str → Bool) (v : Str) : Elifs → Bool
    | .nil => false
    | .cons _ _ body rest => body.assignsF fa v || rest.assignsF fa v
end

mutual
  /-- the fragment; `names` = all defined functions, `callable` = those that may be called here,
      `rets` = `return` allowed (function bodies), `inFor` = lexically inside a for-in body -/
  def Stmt.fnFrag (names callable : List Str) (fa : Str → Str → Bool) (rets inFor : Bool) : Stmt → Bool
    | .line l => (isSimpleCmd l.cmd && isLiteral l.cmd) || callable.contains l.cmd
    | .ifChain _ cond body elifs _ elseBody _ =>
      condSimple2 cond && condNoFn names cond && body.fnFrag names callable fa rets inFor &&
        elifs.fnFrag names callable fa rets inFor && elseBody.fnFrag names callable fa rets inFor
    | .whileLoop _ cond body _ =>
      condSimple2 cond && condNoFn names cond && body.fnFrag names callable fa rets inFor
    | .forIn _ x handle body _ =>
      isLiteral x && !x.isEmpty && body.fnFrag names callable fa rets true &&
        (match handleVar? handle with
         | some h => x != h && !body.assignsF fa h
         | none => false)
    | .fnDef _ _ _ _ _ => false
    | .ret _ _ => rets && !inFor
  def Block.fnFrag (names callable : List Str) (fa : Str → Str → Bool) (rets inFor : Bool) : Block → Bool
    | .nil => true
    | .cons s rest => s.fnFrag names callable fa rets inFor && rest.fnFrag names callable fa rets inFor
  def Elifs.fnFrag (names callable : List Str) (fa : Str → Str → Bool) (rets inFor : Bool) : Elifs → Bool
    | .nil => true
    | .cons _ cond body rest =>
      condSimple2 cond && condNoFn names cond && body.fnFrag names callable fa rets inFor &&
        rest.fnFrag names callable fa rets inFor
end

/-- the coarse call oracle: a call of a defined function may assign anything (so a for-in body
    containing a call is outside the fragment) -/
def faAll (names : List Str) : Str → Str → Bool := fun n _ => names.contains n

/-- the definitions (in program order) are acceptable: names fresh and admissible, keywords right,
    bodies in the fragment and calling only functions defined earlier -/
def defsOK (names : List Str) (fa : Str → Str → Bool) : List Str → List FnDecl → Bool
  | _, [] => true
  | earlier, d :: ds =>
    fnNameOK d.name && !earlier.contains d.name && isFnKw d.kw && isEndFnKw d.kwEnd && d.body.wf &&
      d.body.fnFrag names earlier fa true false && defsOK names fa (earlier ++ [d.name]) ds

/-- the whole program is in the fragment -/
def progOK (defs : List FnDecl) (main : Block) : Bool :=
  let names := defs.map (·.name)
  defsOK names (faAll names) [] defs && main.wf && main.fnFrag names names (faAll names) false false

/-! ### "every condition evaluated in this tree run — also inside called functions — has safe
    bound arguments" -/

mutual
  def fsafeStmt (is : List Instruction) : Nat → Stmt → TState → Bool
    | 0, _, _ => true
    | fuel + 1, s, t =>
      match s with
      | .line l =>
        match lookupFn t.fns l.cmd with
        | some f => fsafeCall is fuel f (bind t.vars (if l.args.isEmpty then none else some l.args)) l.out t
        | none => true
      | .ifChain _ cond body elifs kwElse elseBody _ =>
        condArgsSafe (bind t.vars (some cond)) &&
          (match evalCond is fuel cond t with
           | none => true
           | some (true, t) => fsafeBlock is fuel body t
           | some (false, t) => fsafeElifs is fuel elifs kwElse elseBody t)
      | .whileLoop kw cond body kwEnd =>
        condArgsSafe (bind t.vars (some cond)) &&
          (match evalCond is fuel cond t with
           | some (true, t) =>
             fsafeBlock is fuel body t &&
               (match execBlock is fuel body t with
                | .normal t => fsafeStmt is fuel (.whileLoop kw cond body kwEnd) t
                | _ => true)
           | _ => true)
      | .forIn _ v handle body _ =>
        match bind t.vars (some [handle]) with
        | [h] => fsafeFor is fuel v ((t.sdk.handles.get h).getD []) body t
        | _ => true
      | _ => true
  def fsafeCall (is : List Instruction) : Nat → FnDef → List Str → Option Str → TState → Bool
    | 0, _, _, _, _ => true
    | fuel + 1, f, args, out, t =>
      let vars := bindParams (if f.isScoped then [] else t.vars) args
      let vars := match out with | some o => vars.erase o | none => vars
      fsafeBlock is fuel f.body { t with vars := vars, depth := t.depth + 1 }
  def fsafeBlock (is : List Instruction) : Nat → Block → TState → Bool
    | 0, _, _ => true
    | fuel + 1, b, t =>
      match b with
      | .nil => true
      | .cons s rest =>
        fsafeStmt is fuel s t &&
          (match execStmt is fuel s t with
           | .normal t => fsafeBlock is fuel rest t
           | _ => true)
  def fsafeElifs (is : List Instruction) : Nat → Elifs → Option Str → Block → TState → Bool
    | 0, _, _, _, _ => true
    | fuel + 1, e, kwElse, elseBody, t =>
      match e with
      | .nil => if kwElse.isSome then fsafeBlock is fuel elseBody t else true
      | .cons _ cond body rest =>
        condArgsSafe (bind t.vars (some cond)) &&
          (match evalCond is fuel cond t with
           | none => true
           | some (true, t) => fsafeBlock is fuel body t
           | some (false, t) => fsafeElifs is fuel rest kwElse elseBody t)
  def fsafeFor (is : List Instruction) : Nat → Str → List Str → Block → TState → Bool
    | 0, _, _, _, _ => true
    | fuel + 1, v, items, body, t =>
      match items with
      | [] => true
      | x :: rest =>
        fsafeBlock is fuel body { t with vars := t.vars.set v x } &&
          (match execBlock is fuel body { t with vars := t.vars.set v x } with
           | .normal t => fsafeFor is fuel v rest body t
           | _ => true)
end

/-- the safety hypothesis of the C05 simulation theorem for a whole program -/
def FnCondArgsSafe (fuel : Nat) (defs : List FnDecl) (main : Block) (vars : Vars) : Prop :=
  fsafeBlock (program (withDefs defs main)) fuel (withDefs defs main) { vars := vars, sdk := {} } = true

end Duck.Spec
