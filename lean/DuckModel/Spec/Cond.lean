/-
  C06 specification: a condition statement is a conjunction ('and') of disjunctions ('or')
  of atoms; an atom is a value or a parenthesised group evaluated by the same rule; an
  empty group / empty statement is falsy.  Specification side only.
-/
import DuckModel.Chars
import DuckModel.Types

namespace Duck.Spec
open Duck

/-- the truthiness rule of the property statement, written out -/
def truthy (v : Option Str) : Bool :=
  match v with
  | none => false
  | some s =>
    let l := asciiLower s
    !(l = [] || l = "0".toList || l = "false".toList || l = "no".toList)

mutual
  inductive Atom
    | val (s : Str)
    | group (c : Cond)
  inductive Cond
    | empty
    | conj (c : Conj)
  inductive Conj
    | one (d : Disj)
    | cons (d : Disj) (rest : Conj)
  inductive Disj
    | one (a : Atom)
    | cons (a : Atom) (rest : Disj)
end

mutual
  def Atom.tokens : Atom → List Str
    | .val s => [s]
    | .group c => "(".toList :: (c.tokens ++ [")".toList])
  def Cond.tokens : Cond → List Str
    | .empty => []
    | .conj c => c.tokens
  def Conj.tokens : Conj → List Str
    | .one d => d.tokens
    | .cons d rest => d.tokens ++ "and".toList :: rest.tokens
  def Disj.tokens : Disj → List Str
    | .one a => a.tokens
    | .cons a rest => a.tokens ++ "or".toList :: rest.tokens
end

mutual
  def Atom.eval : Atom → Bool
    | .val s => truthy (some s)
    | .group c => c.eval
  def Cond.eval : Cond → Bool
    | .empty => false
    | .conj c => c.eval
  def Conj.eval : Conj → Bool
    | .one d => d.eval
    | .cons d rest => d.eval && rest.eval
  def Disj.eval : Disj → Bool
    | .one a => a.eval
    | .cons a rest => a.eval || rest.eval
end

/-- a value atom must not be one of the four keywords -/
def ValOK (s : Str) : Prop :=
  s ≠ "and".toList ∧ s ≠ "or".toList ∧ s ≠ "(".toList ∧ s ≠ ")".toList

mutual
  def Atom.OK : Atom → Prop
    | .val s => ValOK s
    | .group c => c.OK
  def Cond.OK : Cond → Prop
    | .empty => True
    | .conj c => c.OK
  def Conj.OK : Conj → Prop
    | .one d => d.OK
    | .cons d rest => d.OK ∧ rest.OK
  def Disj.OK : Disj → Prop
    | .one a => a.OK
    | .cons a rest => a.OK ∧ rest.OK
end

end Duck.Spec
