/-
  C03 specification: the abstract machine of the property statement, as a relation with
  one rule per documented reaction.  Specification side only: label lookup is stated
  declaratively ("the last line carrying that label"), there is no fuel, no label table and
  no halt flag here.
-/
import DuckModel.Runner

namespace Duck.Spec
open Duck

structure Cfg (σ : Type) where
  pc : Nat
  vars : Vars
  st : σ

inductive Final (σ : Type)
  | ok (vars : Vars) (st : σ)
  | fail (msg : Str) (mi : Meta) (st : σ)

/-- instruction `i` carries label `l` -/
def HasLabel (i : Instruction) (l : Str) : Prop :=
  ∃ si, i.ty = .script si ∧ si.label = some l

/-- `k` is the last line carrying label `l` -/
def IsLabelLine (is : List Instruction) (l : Str) (k : Nat) : Prop :=
  (∃ i, is[k]? = some i ∧ HasLabel i l) ∧
  ∀ (k' : Nat) (i : Instruction), k < k' → is[k']? = some i → ¬ HasLabel i l

def NoLabelLine (is : List Instruction) (l : Str) : Prop :=
  ∀ (k : Nat) (i : Instruction), is[k]? = some i → ¬ HasLabel i l

/-- the output variable of an instruction (none for blank / directive lines) -/
def outputOf (i : Instruction) : Option Str :=
  match i.ty with
  | .script si => si.output
  | _ => none

/-- the command invocation written on the line, if any: (name, written arguments) -/
def invocationOf (i : Instruction) : Option (Str × Option (List Str)) :=
  match i.ty with
  | .script si => si.command.map fun c => (c, si.args)
  | _ => none

/-- what `on_error` is told: message, line (0 if unknown), source ("" if unknown) -/
def errorReport (e : Str) (mi : Meta) : List Str :=
  [e, natToStr (mi.line.getD 0), mi.source.getD []]

/-- One step of the abstract machine.  `sem` gives the results of the commands. -/
inductive Step {σ : Type} (sem : CmdSem σ) (is : List Instruction) :
    Cfg σ → Cfg σ ⊕ Final σ → Prop
  /-- past the last line: the run ends successfully -/
  | reachedEnd (c : Cfg σ) : is[c.pc]? = none → Step sem is c (.inr (.ok c.vars c.st))
  /-- a line without a command: value-less continue (deletes the output variable if one is written) -/
  | noCommand (c : Cfg σ) (i : Instruction) :
      is[c.pc]? = some i → invocationOf i = none →
      Step sem is c (.inl ⟨c.pc + 1, Vars.updateOutput c.vars (outputOf i) none, c.st⟩)
  /-- unknown command: the run stops with an error naming this line -/
  | unknownCommand (c : Cfg σ) (i : Instruction) (name : Str) (args : Option (List Str)) :
      is[c.pc]? = some i → invocationOf i = some (name, args) →
      sem name (bind c.vars args) (outputOf i) c.pc c.vars c.st = none →
      Step sem is c (.inr (.fail ("Command: ".toList ++ name ++ " not found.".toList) i.mi c.st))
  /-- continue: store (or delete) the output variable, next line -/
  | continue (c : Cfg σ) (i : Instruction) (name : Str) (args : Option (List Str))
      (v : Option Str) (vars' : Vars) (st' : σ) :
      is[c.pc]? = some i → invocationOf i = some (name, args) →
      sem name (bind c.vars args) (outputOf i) c.pc c.vars c.st = some (.continue v, vars', st') →
      Step sem is c (.inl ⟨c.pc + 1, Vars.updateOutput vars' (outputOf i) v, st'⟩)
  /-- goto label: jump to the last line carrying that label -/
  | gotoLabel (c : Cfg σ) (i : Instruction) (name : Str) (args : Option (List Str))
      (v : Option Str) (l : Str) (k : Nat) (vars' : Vars) (st' : σ) :
      is[c.pc]? = some i → invocationOf i = some (name, args) →
      sem name (bind c.vars args) (outputOf i) c.pc c.vars c.st = some (.goTo v (.label l), vars', st') →
      IsLabelLine is l k →
      Step sem is c (.inl ⟨k, Vars.updateOutput vars' (outputOf i) v, st'⟩)
  /-- goto an unknown label: the run stops with an error naming this line -/
  | gotoUnknownLabel (c : Cfg σ) (i : Instruction) (name : Str) (args : Option (List Str))
      (v : Option Str) (l : Str) (vars' : Vars) (st' : σ) :
      is[c.pc]? = some i → invocationOf i = some (name, args) →
      sem name (bind c.vars args) (outputOf i) c.pc c.vars c.st = some (.goTo v (.label l), vars', st') →
      NoLabelLine is l →
      Step sem is c (.inr (.fail ("Label: ".toList ++ l ++ " not found.".toList) i.mi st'))
  /-- goto line -/
  | gotoLine (c : Cfg σ) (i : Instruction) (name : Str) (args : Option (List Str))
      (v : Option Str) (n : Nat) (vars' : Vars) (st' : σ) :
      is[c.pc]? = some i → invocationOf i = some (name, args) →
      sem name (bind c.vars args) (outputOf i) c.pc c.vars c.st = some (.goTo v (.line n), vars', st') →
      Step sem is c (.inl ⟨n, Vars.updateOutput vars' (outputOf i) v, st'⟩)
  /-- exit: the run stops; it succeeds unless the value is a non-zero integer -/
  | exitOk (c : Cfg σ) (i : Instruction) (name : Str) (args : Option (List Str))
      (v : Option Str) (vars' : Vars) (st' : σ) :
      is[c.pc]? = some i → invocationOf i = some (name, args) →
      sem name (bind c.vars args) (outputOf i) c.pc c.vars c.st = some (.exit v, vars', st') →
      (∀ code, v.bind parseI32 = some code → code = 0) →
      Step sem is c (.inr (.ok (Vars.updateOutput vars' (outputOf i) v) st'))
  | exitCode (c : Cfg σ) (i : Instruction) (name : Str) (args : Option (List Str))
      (v : Option Str) (code : Int) (vars' : Vars) (st' : σ) :
      is[c.pc]? = some i → invocationOf i = some (name, args) →
      sem name (bind c.vars args) (outputOf i) c.pc c.vars c.st = some (.exit v, vars', st') →
      v.bind parseI32 = some code → code ≠ 0 →
      Step sem is c (.inr (.fail ("Exit with error code: ".toList ++ intToStr code) i.mi st'))
  /-- crash: the run stops with an error naming this line -/
  | crash (c : Cfg σ) (i : Instruction) (name : Str) (args : Option (List Str))
      (e : Str) (vars' : Vars) (st' : σ) :
      is[c.pc]? = some i → invocationOf i = some (name, args) →
      sem name (bind c.vars args) (outputOf i) c.pc c.vars c.st = some (.crash e, vars', st') →
      Step sem is c (.inr (.fail e i.mi st'))
  /-- error, no `on_error` command: the output becomes "false", next line -/
  | errorNoHandler (c : Cfg σ) (i : Instruction) (name : Str) (args : Option (List Str))
      (e : Str) (vars' : Vars) (st' : σ) :
      is[c.pc]? = some i → invocationOf i = some (name, args) →
      sem name (bind c.vars args) (outputOf i) c.pc c.vars c.st = some (.error e, vars', st') →
      sem onErrorName (errorReport e i.mi) none 0
        (Vars.updateOutput vars' (outputOf i) (some "false".toList)) st' = none →
      Step sem is c (.inl ⟨c.pc + 1, Vars.updateOutput vars' (outputOf i) (some "false".toList), st'⟩)
  /-- error, `on_error` exists: it is told message, line and source (verbatim); whatever it
      returns other than exit / crash, the script continues with the next line -/
  | errorHandled (c : Cfg σ) (i : Instruction) (name : Str) (args : Option (List Str))
      (e : Str) (vars' : Vars) (st' : σ) (r : CmdResult) (vars'' : Vars) (st'' : σ) :
      is[c.pc]? = some i → invocationOf i = some (name, args) →
      sem name (bind c.vars args) (outputOf i) c.pc c.vars c.st = some (.error e, vars', st') →
      sem onErrorName (errorReport e i.mi) none 0
        (Vars.updateOutput vars' (outputOf i) (some "false".toList)) st' = some (r, vars'', st'') →
      (∀ v, r ≠ .exit v) → (∀ m, r ≠ .crash m) →
      Step sem is c (.inl ⟨c.pc + 1, vars'', st''⟩)
  /-- error, `on_error` exits: the run fails, naming the line of the failing instruction -/
  | errorHandlerExits (c : Cfg σ) (i : Instruction) (name : Str) (args : Option (List Str))
      (e : Str) (vars' : Vars) (st' : σ) (v : Option Str) (vars'' : Vars) (st'' : σ) :
      is[c.pc]? = some i → invocationOf i = some (name, args) →
      sem name (bind c.vars args) (outputOf i) c.pc c.vars c.st = some (.error e, vars', st') →
      sem onErrorName (errorReport e i.mi) none 0
        (Vars.updateOutput vars' (outputOf i) (some "false".toList)) st' = some (.exit v, vars'', st'') →
      Step sem is c (.inr (.fail "Exiting Script.".toList i.mi st''))
  /-- error, `on_error` crashes: the run fails with its message, naming the failing line -/
  | errorHandlerCrashes (c : Cfg σ) (i : Instruction) (name : Str) (args : Option (List Str))
      (e : Str) (vars' : Vars) (st' : σ) (m : Str) (vars'' : Vars) (st'' : σ) :
      is[c.pc]? = some i → invocationOf i = some (name, args) →
      sem name (bind c.vars args) (outputOf i) c.pc c.vars c.st = some (.error e, vars', st') →
      sem onErrorName (errorReport e i.mi) none 0
        (Vars.updateOutput vars' (outputOf i) (some "false".toList)) st' = some (.crash m, vars'', st'') →
      Step sem is c (.inr (.fail m i.mi st''))

/-- a run of the abstract machine from `c` to a final outcome -/
inductive Reaches {σ : Type} (sem : CmdSem σ) (is : List Instruction) : Cfg σ → Final σ → Prop
  | done (c : Cfg σ) (f : Final σ) : Step sem is c (.inr f) → Reaches sem is c f
  | step (c c' : Cfg σ) (f : Final σ) : Step sem is c (.inl c') → Reaches sem is c' f → Reaches sem is c f

/-- the outcome of the model runner, as the spec sees it -/
def finalOf {σ : Type} (rs : RunState σ) (e : RunEnd) : Option (Final σ) :=
  match e with
  | .exitCalled => some (.ok rs.vars rs.st)
  | .reachedEnd => some (.ok rs.vars rs.st)
  | .fail msg mi => some (.fail msg mi rs.st)
  | .halted => none
  | .outOfFuel => none

def noHalt {σ : Type} : Nat → σ → Bool := fun _ _ => false

end Duck.Spec
