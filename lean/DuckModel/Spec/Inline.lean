/-
  C14 — specification: textual inlining of `!include_files`.

  Written from the property statement, independent of the parser model: the only things it
  knows are how a text splits into lines, how a file is read, how the path written in a
  directive of a file is resolved, and which lines are include directives (and the arguments
  they list).  These four are parameters (`World`).

  `inline w fuel file` is the list of (provenance, line text) obtained by replacing,
  recursively, every directive line by the lines of the files it lists, in order.
  Provenance = the file the line was written in and its 1-based line number there.

  The directive line itself is REPLACED (it does not occur in the inlined list).  In the real
  parse the directive stays in the instruction list as a `PreProcess` instruction that does
  nothing at run time: it shifts the absolute instruction indexes but is never a label or block
  target.  The equivalence of Props/C14.lean is therefore stated modulo those directive
  instructions (`stripDirectives`).

  Pasting stops at the first file that cannot be read: the result carries the lines pasted so far
  (everything that precedes the failing directive argument in reading order) and the reason.
  `fuel` bounds the include depth (an include cycle is cut there: `Stop.depth`).
-/
import DuckModel.Chars
import DuckModel.Types

namespace Duck.Spec

structure World where
  /-- contents of a file (`none`: cannot be read) -/
  read : Str → Option Str
  /-- `resolve includer arg`: the file named by `arg` in a directive written in `includer` -/
  resolve : Str → Str → Str
  /-- the files listed by a line that is an include directive (`none`: any other line) -/
  directive : Str → Option (List Str)

inductive Stop
  /-- the file with this (resolved) path could not be read -/
  | missing (path : Str)
  /-- include depth exceeded -/
  | depth
deriving DecidableEq, Repr

/-- lines pasted so far + why the pasting stopped (`none`: it did not) -/
abbrev Inlined := List (Meta × Str) × Option Stop

/-- `a` followed by `b` -/
def Inlined.seq (a b : Inlined) : Inlined :=
  match a.2 with
  | some s => (a.1, some s)
  | none => (a.1 ++ b.1, b.2)

/-- the files listed by one directive, in order -/
def inlineArgs (inc : Str → Inlined) (resolve : Str → Str) : List Str → Inlined
  | [] => ([], none)
  | a :: as => (inc (resolve a)).seq (inlineArgs inc resolve as)

/-- the lines of `file` from line number `n` on -/
def inlineLines (w : World) (inc : Str → Inlined) (file : Str) : Nat → List Str → Inlined
  | _, [] => ([], none)
  | n, l :: ls =>
    match w.directive l with
    | some args => (inlineArgs inc (w.resolve file) args).seq (inlineLines w inc file (n + 1) ls)
    | none =>
      Inlined.seq ([({ line := some n, source := some file }, l)], none)
        (inlineLines w inc file (n + 1) ls)

def inline (w : World) : Nat → Str → Inlined
  | 0, _ => ([], some .depth)
  | fuel + 1, file =>
    match w.read file with
    | none => ([], some (.missing file))
    | some text => inlineLines w (inline w fuel) file 1 (lines text)

/-- the inlined text (lines joined by line feeds) -/
def inlinedText (ls : List (Meta × Str)) : Str := ls.flatMap (fun p => p.2 ++ ['\n'])

end Duck.Spec
