/-
  Model of duckscript/src/expansion.rs (`expand_by_wrapper`) and of
  `runner::bind_command_arguments`.
-/
import DuckModel.Parser
import DuckModel.Vars

namespace Duck

inductive Expanded
  | single (v : Str)
  | multi (vs : List Str)
  | none
deriving DecidableEq, Repr

/-- mutable locals of `expand_by_wrapper` -/
structure XSt where
  out : Str := []
  prefixIndex : Nat := 0
  foundPrefix : Bool := false
  key : Str := []
  forcePush : Bool := false
  singleType : Bool := true
deriving DecidableEq, Repr

def shouldBreakKey (c : Char) : Bool :=
  c == ' ' || c == '\n' || c == '\t' || c == '\r' || c == '='

def pushPrefix (buf : Str) (singleType : Bool) (full : Bool) : Str :=
  buf ++ [if singleType then '$' else '%'] ++ (if full then ['{'] else [])

/-- one iteration of `for next_char in value.chars()` -/
def xStep (vars : Vars) (st : XSt) (c : Char) : XSt :=
  if st.foundPrefix = false then
    if st.forcePush then
      { st with out := (if c ≠ '$' ∧ c ≠ '%' then st.out ++ ['\\'] else st.out) ++ [c],
                forcePush := false }
    else if c = '\\' ∧ st.prefixIndex = 0 then { st with forcePush := true }
    else if st.prefixIndex = 0 ∧ (c = '$' ∨ c = '%') then
      { st with prefixIndex := 1, singleType := (c == '$') }
    else if st.prefixIndex = 1 ∧ c = '{' then
      { st with foundPrefix := true, prefixIndex := 0, key := [] }
    else
      { st with out := (if st.prefixIndex > 0 then pushPrefix st.out st.singleType false else st.out) ++ [c],
                prefixIndex := 0 }
  else if c = '}' then
    { st with out := st.out ++ (vars.get st.key).getD [], key := [], foundPrefix := false }
  else if shouldBreakKey c then
    { st with out := pushPrefix st.out st.singleType true ++ st.key ++ [c], prefixIndex := 0,
              key := [], foundPrefix := false }
  else { st with key := st.key ++ [c] }

/-- code after the loop (expansion.rs:95-105): final buffer and final `single_type` -/
def xFinish (st : XSt) : Str × Bool :=
  if st.forcePush then (st.out ++ ['\\'], st.singleType)
  else if st.key ≠ [] then
    ((if st.prefixIndex > 0 ∨ st.foundPrefix then pushPrefix st.out st.singleType st.foundPrefix
      else st.out) ++ st.key, st.singleType)
  else if st.prefixIndex = 1 then (pushPrefix st.out st.singleType false, true)
  else (st.out, st.singleType)

/-- `expand_by_wrapper` -/
def expand (vars : Vars) (value : Str) : Expanded :=
  let (out, single) := xFinish (value.foldl (xStep vars) {})
  if out.isEmpty then (if single then .none else .multi [])
  else if single then .single out
  else
    match reparseArguments out with
    | .ok (some vs) => .multi vs
    | .ok none => .multi []
    | .error _ => .none

/-- `bind_command_arguments` -/
def bind (vars : Vars) (args : Option (List Str)) : List Str :=
  (args.getD []).flatMap fun a =>
    match expand vars a with
    | .single v => [v]
    | .multi vs => vs
    | .none => [[]]

end Duck
