/-
  Model of duckscript/src/parser.rs (and the dispatch of preprocessor/mod.rs).

  Transcription rule: one iteration of a Rust `for _i in index..end_index` loop is one
  structural step on the *remaining* characters (`List Char`).  The hand-moved `index`
  becomes "what is left": `index -= 1` right after `index += 1` gives back the current
  character (`c :: rest`), `index = end_index` leaves `[]`.
-/
import DuckModel.Chars
import DuckModel.Types

namespace Duck

structure PVFlags where
  allowQuotes : Bool
  allowControl : Bool
  stopOnEquals : Bool
  controlAsChar : Bool
deriving DecidableEq, Repr

/-- mutable locals of `parse_next_value` -/
structure PVSt where
  arg : Str := []
  inArg : Bool := false
  usingQuotes : Bool := false
  inControl : Bool := false
  foundVar : Bool := false
deriving DecidableEq, Repr

inductive PVStep
  | cont (st : PVSt)
  | brk (st : PVSt) (rest : Str) (foundEnd : Bool)
  | err (e : PErr)

/-- body of the character loop of `parse_next_value` (parser.rs:280-362);
    `rest` = the characters after `c`. -/
def pvStep (fl : PVFlags) (st : PVSt) (c : Char) (rest : Str) : PVStep :=
  if st.inArg then
    if st.inControl then
      if st.foundVar then
        if c = '{' then
          .cont { st with arg := st.arg ++ ['\\', '$', '{'], inControl := false, foundVar := false }
        else .err .controlWithoutValidValue
      else if c = '\\' ∨ c = '"' then .cont { st with arg := st.arg ++ [c], inControl := false }
      else if c = 'n' then .cont { st with arg := st.arg ++ ['\n'], inControl := false }
      else if c = 'r' then .cont { st with arg := st.arg ++ ['\r'], inControl := false }
      else if c = 't' then .cont { st with arg := st.arg ++ ['\t'], inControl := false }
      else if c = '$' then .cont { st with foundVar := true }
      else .err .controlWithoutValidValue
    else if c = '\\' then
      if fl.controlAsChar then .cont { st with arg := st.arg ++ [c] }
      else if fl.allowControl then .cont { st with inControl := true, foundVar := false }
      else .err .invalidControlLocation
    else if st.usingQuotes ∧ c = '"' then .brk st rest true
    else if st.usingQuotes = false ∧ (c = ' ' ∨ c = '#' ∨ (fl.stopOnEquals ∧ c = '=')) then
      if c = ' ' ∨ c = '=' then .brk st (c :: rest) true
      else .brk st [] true
    else .cont { st with arg := st.arg ++ [c] }
  else if c = '#' then .brk st [] false
  else if c ≠ ' ' then
    if c = '"' then
      if fl.allowQuotes then .cont { st with inArg := true, usingQuotes := true }
      else .err .invalidQuotesLocation
    else if c = '\\' then
      if fl.controlAsChar then .cont { st with inArg := true, arg := st.arg ++ [c] }
      else if fl.allowControl then .cont { st with inArg := true, inControl := true }
      else .err .invalidControlLocation
    else .cont { st with inArg := true, arg := st.arg ++ [c] }
  else .cont st

/-- the `for` loop of `parse_next_value` -/
def pvLoop (fl : PVFlags) : PVSt → Str → Except PErr (PVSt × Str × Bool)
  | st, [] => .ok (st, [], false)
  | st, c :: rest =>
    match pvStep fl st c rest with
    | .cont st' => pvLoop fl st' rest
    | .brk st' r fe => .ok (st', r, fe)
    | .err e => .error e

/-- code after the loop (parser.rs:364-378) -/
def pvFinish (st : PVSt) (rest : Str) (foundEnd : Bool) : Except PErr (Str × Option Str) :=
  if st.inArg ∧ foundEnd = false ∧ (st.inControl ∨ st.usingQuotes) then
    if st.inControl then .error .controlWithoutValidValue else .error .missingEndQuotes
  else if st.arg.isEmpty then
    if st.usingQuotes then .ok (rest, some st.arg) else .ok (rest, none)
  else .ok (rest, some st.arg)

/-- `parse_next_value`: returns what is left of the line and the value. -/
def parseNextValue (fl : PVFlags) (l : Str) : Except PErr (Str × Option Str) :=
  match l with
  | [] => .ok ([], none)
  | _ =>
    match pvLoop fl {} l with
    | .error e => .error e
    | .ok (st, rest, fe) => pvFinish st rest fe

def argFlags (controlAsChar : Bool) : PVFlags :=
  { allowQuotes := true, allowControl := !controlAsChar, stopOnEquals := false,
    controlAsChar := controlAsChar }
def nameFlags : PVFlags :=
  { allowQuotes := false, allowControl := false, stopOnEquals := false, controlAsChar := false }
def outputFlags : PVFlags :=
  { allowQuotes := false, allowControl := false, stopOnEquals := true, controlAsChar := false }

/-- `parse_arguments_with_options`: the `loop` ends at the first `None`.
    The guard `r.length < l.length` is always true when a value was produced
    (a value needs at least one consumed character); it only makes termination evident. -/
def parseArgsLoop (cac : Bool) (l : Str) : Except PErr (List Str) :=
  match parseNextValue (argFlags cac) l with
  | .error e => .error e
  | .ok (_, none) => .ok []
  | .ok (r, some a) =>
    if r.length < l.length then
      match parseArgsLoop cac r with
      | .error e => .error e
      | .ok as => .ok (a :: as)
    else .ok [a]
termination_by l.length

def parseArgumentsWith (cac : Bool) (l : Str) : Except PErr (Option (List Str)) :=
  match parseArgsLoop cac l with
  | .error e => .error e
  | .ok [] => .ok none
  | .ok as => .ok (some as)

/-- `parse_arguments` -/
def parseArguments (l : Str) : Except PErr (Option (List Str)) := parseArgumentsWith false l
/-- `reparse_arguments` (used by `%{}` expansion) -/
def reparseArguments (l : Str) : Except PErr (Option (List Str)) := parseArgumentsWith true l

/-- `find_label` -/
def findLabel : Str → Except PErr (Str × Option Str)
  | [] => .ok ([], none)
  | c :: rest =>
    if c = ':' then
      match parseNextValue nameFlags rest with
      | .error e => .error e
      | .ok (r, none) => .ok (r, none)
      | .ok (r, some v) => if v.isEmpty then .error .emptyLabel else .ok (r, some (':' :: v))
    else if c ≠ ' ' then .ok (c :: rest, none)
    else findLabel rest

/-- the small loop in `find_output_and_command` that looks for `=` after the first value:
    returns (found `=`, what is left after the first non-space character) -/
def skipToEquals : Str → Bool × Str
  | [] => (false, [])
  | c :: rest => if c ≠ ' ' then (c = '=', rest) else skipToEquals rest

/-- `find_output_and_command`: returns (rest, output, command) -/
def findOutputAndCommand (l : Str) : Except PErr (Str × Option Str × Option Str) :=
  match parseNextValue outputFlags l with
  | .error e => .error e
  | .ok (r, none) => .ok (r, none, none)
  | .ok (r, some v) =>
    match skipToEquals r with
    | (true, afterEq) =>
      match parseNextValue nameFlags afterEq with
      | .error e => .error e
      | .ok (_, none) => .ok (afterEq, some v, none)
      | .ok (r2, some cmd) => .ok (r2, some v, some cmd)
    | (false, _) => .ok (r, none, some v)

/-- `parse_command_line` (start index 0, non-empty line) -/
def parseCommandLine (l : Str) : Except PErr InstrType :=
  match l with
  | [] => .ok .empty
  | _ =>
    match findLabel l with
    | .error e => .error e
    | .ok (r1, label) =>
      match findOutputAndCommand r1 with
      | .error e => .error e
      | .ok (r2, output, command) =>
        match parseArguments r2 with
        | .error e => .error e
        | .ok args =>
          if label.isNone ∧ output.isNone ∧ command.isNone then .ok .empty
          else .ok (.script { label := label, output := output, command := command, args := args })

/-- command-name loop of `parse_pre_process_line` -/
def ppCommand : Str → Str → Str × Str
  | acc, [] => (acc, [])
  | acc, c :: rest =>
    if c = ' ' then (if acc.isEmpty then ppCommand acc rest else (acc, rest))
    else ppCommand (acc ++ [c]) rest

/-- `parse_pre_process_line` (argument = the line after the `!`) -/
def parsePreProcessLine (l : Str) : Except PErr InstrType :=
  let (cmd, rest) := ppCommand [] l
  if cmd.isEmpty then .error .preProcessNoCommandFound
  else
    match parseArguments rest with
    | .error e => .error e
    | .ok args => .ok (.preProcess (some cmd) args)

/-- `parse_line` without the meta info (added by `parseLines`) -/
def parseLine (line : Str) : Except PErr InstrType :=
  let t := trim line
  match t with
  | [] => .ok .empty
  | c :: rest =>
    if c = '#' then .ok .empty
    else if c = '!' then parsePreProcessLine rest
    else parseCommandLine t

/-- abstract file system for `!include_files` -/
structure Fs where
  read : Str → Option Str
  /-- path of the file named by `arg` in a directive of the file `source` -/
  resolve : Option Str → Str → Str

def Fs.none : Fs := { read := fun _ => Option.none, resolve := fun _ a => a }

def printName : Str := "print".toList
def includeName : Str := "include_files".toList

/-- `include_files_preprocessor::run` with `inc` = `parse_file` one level down -/
def includeFiles (inc : Str → Except ParseFail (List Instruction)) (fs : Fs) (src : Option Str) :
    List Str → Except ParseFail (List Instruction)
  | [] => .ok []
  | a :: as =>
    match inc (fs.resolve src a) with
    | .error e => .error e
    | .ok is =>
      match includeFiles inc fs src as with
      | .error e => .error e
      | .ok more => .ok (is ++ more)

/-- `preprocessor::run` -/
def runPre (inc : Str → Except ParseFail (List Instruction)) (fs : Fs) (m : Meta)
    (cmd : Option Str) (args : Option (List Str)) : Except ParseFail (List Instruction) :=
  match cmd with
  | none => .error ⟨.preProcessNoCommandFound, m⟩
  | some c =>
    if c = printName then .ok []
    else if c = includeName then includeFiles inc fs m.source (args.getD [])
    else .error ⟨.unknownPreProcessorCommand, m⟩

/-- `parse_lines`: `n` is the 1-based number of the first line of `ls` -/
def parseLinesWith (inc : Str → Except ParseFail (List Instruction)) (fs : Fs) (src : Option Str) :
    Nat → List Str → Except ParseFail (List Instruction)
  | _, [] => .ok []
  | n, l :: ls =>
    let m : Meta := { line := some n, source := src }
    match parseLine l with
    | .error k => .error ⟨k, m⟩
    | .ok ty =>
      match ty with
      | .preProcess cmd args =>
        match runPre inc fs m cmd args with
        | .error e => .error e
        | .ok added =>
          match parseLinesWith inc fs src (n + 1) ls with
          | .error e => .error e
          | .ok r => .ok (⟨m, ty⟩ :: (added ++ r))
      | _ =>
        match parseLinesWith inc fs src (n + 1) ls with
        | .error e => .error e
        | .ok r => .ok (⟨m, ty⟩ :: r)

/-- model-only error for include recursion deeper than the fuel (the real code recurses
    without bound; a cycle exhausts the stack). Carried as `errorReadingFile []`. -/
def depthExceeded : ParseFail := ⟨.errorReadingFile "<include depth>".toList, {}⟩

/-- `parse_file` with include-depth fuel -/
def parseFileF (fs : Fs) : Nat → Str → Except ParseFail (List Instruction)
  | 0, _ => .error depthExceeded
  | fuel + 1, file =>
    match fs.read file with
    | none => .error ⟨.errorReadingFile file, {}⟩
    | some text => parseLinesWith (parseFileF fs fuel) fs (some file) 1 (lines text)

/-- `parse_text` with an abstract file system -/
def parseTextFs (fs : Fs) (fuel : Nat) (text : Str) : Except ParseFail (List Instruction) :=
  parseLinesWith (parseFileF fs fuel) fs none 1 (lines text)

/-- `parse_text` when no file can be read (any `!include_files` with arguments fails) -/
def parseText (text : Str) : Except ParseFail (List Instruction) := parseTextFs Fs.none 0 text

end Duck
