/-
  `HashMap<String, String>` as an association list without duplicate keys
  (`set` erases the key first).  Observables that come out of a hash container are
  sorted by the driver before printing.
-/
import DuckModel.Types

namespace Duck

abbrev Vars := List (Str × Str)

namespace Vars

def get (m : Vars) (k : Str) : Option Str :=
  match m with
  | [] => none
  | (k', v) :: rest => if k' = k then some v else get rest k

def erase (m : Vars) (k : Str) : Vars := m.filter (fun p => p.1 ≠ k)

def set (m : Vars) (k : Str) (v : Str) : Vars := (k, v) :: erase m k

def contains (m : Vars) (k : Str) : Bool := (get m k).isSome

/-- `update_output` (runner.rs:250-261) -/
def updateOutput (m : Vars) (out : Option Str) (v : Option Str) : Vars :=
  match out with
  | none => m
  | some o =>
    match v with
    | some x => set m o x
    | none => erase m o

end Vars
end Duck
