/-
  "Dynamic" scripted commands for the C03 multi-run stream (`runm`): the command table is part of
  the state and can be changed BY COMMANDS while a script runs (what `CommandInvocationContext.commands`
  allows), commands keep private state in `Context.state`, and one Context is handed from run to run.

  * lookup goes through the registry model (`Reg.get`: alias table first, then the name table);
    what is logged is the NAME OF THE COMMAND THAT RAN, so the resolution order is observable;
  * `reg n a…`   registers a new scripted command `n` with aliases `a…`   → `true` / `false`
    `unreg n`    removes a command (by name or alias)                      → `true` / `false`
    `stput k v`  writes `k ↦ v` into the harness's own sub-state           → no value
    `stget k`    reads it                                                  → the value / no value
    `vset k v`   writes the VARIABLE `k` (useful as `on_error` handler)    → no value
    every other registered command logs itself and consumes the next queued result.
  The runner theorems (`C03_refines` …) hold for EVERY command semantics `sem` and state type, so
  this instance is inside them; the harness registers commands with the same behaviour in the
  real runner (harness/src/scripted.rs, `Dyn`).
-/
import DuckModel.Scripted
import DuckModel.Registry

namespace Duck

structure DynSt where
  queue : List CmdResult
  log : List LogEntry := []
  reg : Reg := {}
  store : KV Str := []
deriving Repr

def dynBool (b : Bool) : Str := if b then "true".toList else "false".toList

def dynSem : CmdSem DynSt :=
  fun name args _out line vars s =>
    match s.reg.get name with
    | none => none
    | some spec =>
      let s := { s with log := s.log ++ [{ name := spec.name, args := args, line := line }] }
      if spec.name = "reg".toList then
        match args with
        | [] => some (.continue none, vars, s)
        | n :: al =>
          let (r', ok) := s.reg.set { name := n, aliases := al, tag := 0 }
          some (.continue (some (dynBool ok)), vars, { s with reg := r' })
      else if spec.name = "unreg".toList then
        match args with
        | [] => some (.continue none, vars, s)
        | n :: _ =>
          let (r', ok) := s.reg.remove n
          some (.continue (some (dynBool ok)), vars, { s with reg := r' })
      else if spec.name = "stput".toList then
        match args with
        | k :: v :: _ => some (.continue none, vars, { s with store := s.store.put k v })
        | _ => some (.continue none, vars, s)
      else if spec.name = "vset".toList then
        -- writes a VARIABLE (`context.variables`): as the `on_error` handler (registered under
        -- that alias) it receives [message, line, source] and sets the variable named like the message
        match args with
        | k :: v :: _ => some (.continue none, vars.set k v, s)
        | _ => some (.continue none, vars, s)
      else if spec.name = "stget".toList then
        match args with
        | k :: _ => some (.continue (s.store.get k), vars, s)
        | _ => some (.continue none, vars, s)
      else
        match s.queue with
        | [] => some (.exit none, vars, s)
        | r :: q => some (r, vars, { s with queue := q })

def dynHalt : Nat → DynSt → Bool := fun _ _ => false

/-- the registrations the embedder makes before the first run (refused ones change nothing) -/
def dynRegister (r : Reg) : List CmdSpec → Reg
  | [] => r
  | c :: cs => dynRegister (r.set c).1 cs

/-- several scripts run one after the other on the Context the previous run returned;
    a run that fails (or does not parse) ends the history: the Context is gone -/
inductive DynOutcome
  | ok (vars : Vars)
  | fail (msg : Str) (mi : Meta)
  | parseErr (e : ParseFail)
  | fuel

def dynRuns (fuel : Nat) : List Str → Vars → DynSt → List DynOutcome × DynSt
  | [], _, s => ([], s)
  | text :: rest, vars, s =>
    match runScript dynSem dynHalt fuel text vars s with
    | .error e => ([.parseErr e], s)
    | .ok (rs, e) =>
      match e with
      | .fail msg mi => ([.fail msg mi], rs.st)
      | .outOfFuel => ([.fuel], rs.st)
      | _ =>
        let (os, s') := dynRuns fuel rest rs.vars rs.st
        (.ok rs.vars :: os, s')

end Duck
