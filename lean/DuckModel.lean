import DuckModel.Chars
import DuckModel.Types
import DuckModel.Parser
import DuckModel.Wire
import DuckModel.Driver
import DuckModel.Spec.Render
