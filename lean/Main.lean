import DuckModel.Driver

def main : IO Unit := Duck.Driver.main
